// C02 / C03 / C07 reference (cartesian): Roy-type sine/cosine fields (doxygen euler.page / cns.page) and the
// conservation-form residual of the Euler / compressible Navier-Stokes equations.
#include "e1.hpp"

namespace {
struct Fields { RJ rho, u, v, w, p; };
struct Cfg { const char* name; const char* prop; int dim; bool tr, visc, grads; };
const Cfg CFG[] = {
    {"euler_1d", "C02", 1, 0, 0, 1}, {"euler_2d", "C02", 2, 0, 0, 1}, {"euler_3d", "C02", 3, 0, 0, 1},
    {"euler_transient_1d", "C02", 1, 1, 0, 0}, {"euler_transient_2d", "C02", 2, 1, 0, 0}, {"euler_transient_3d", "C02", 3, 1, 0, 0},
    {"navierstokes_2d_compressible", "C03", 2, 0, 1, 1}, {"navierstokes_3d_compressible", "C03", 3, 0, 1, 1}};

// phi = phi_0 + phi_x f(a_phix pi x/L) + phi_y f(a_phiy pi y/L) + phi_z f(...) [+ phi_t f(a_phit pi t/L)]
Fields roy(const Params& P, int dim, bool tr, const RJ& X, const RJ& Y, const RJ& Z, const RJ& T) {
  Q L = P("L");
  auto ph = [&](const char* a, const RJ& c) { return P(a) * PIq * c / L; };
  Fields F;
  F.rho = RJ(P("rho_0")) + P("rho_x") * sin(ph("a_rhox", X));
  F.u = RJ(P("u_0")) + P("u_x") * sin(ph("a_ux", X));
  F.p = RJ(P("p_0")) + P("p_x") * cos(ph("a_px", X));
  if (dim >= 2) {
    F.v = RJ(P("v_0")) + P("v_x") * cos(ph("a_vx", X)) + P("v_y") * sin(ph("a_vy", Y));
    F.rho = F.rho + P("rho_y") * cos(ph("a_rhoy", Y));
    F.u = F.u + P("u_y") * cos(ph("a_uy", Y));
    F.p = F.p + P("p_y") * sin(ph("a_py", Y));
  }
  if (dim >= 3) {
    F.w = RJ(P("w_0")) + P("w_x") * sin(ph("a_wx", X)) + P("w_y") * sin(ph("a_wy", Y)) + P("w_z") * cos(ph("a_wz", Z));
    F.rho = F.rho + P("rho_z") * sin(ph("a_rhoz", Z));
    F.u = F.u + P("u_z") * cos(ph("a_uz", Z));
    F.v = F.v + P("v_z") * sin(ph("a_vz", Z));
    F.p = F.p + P("p_z") * cos(ph("a_pz", Z));
  }
  if (tr) {
    F.rho = F.rho + P("rho_t") * sin(ph("a_rhot", T));
    F.u = F.u + P("u_t") * cos(ph("a_ut", T));
    F.p = F.p + P("p_t") * cos(ph("a_pt", T));
    if (dim >= 2) F.v = F.v + P("v_t") * sin(ph("a_vt", T));
    if (dim >= 3) F.w = F.w + P("w_t") * cos(ph("a_wt", T));
  }
  return F;
}

struct Res { VS rho, m[3], e; };
Res residual(const Fields& F, int dim, Q Gamma, bool visc, Q mu, Q k, Q R) {
  RJ vel[3] = {F.u, F.v, F.w};
  Res r;
  RJ ke; for (int i = 0; i < dim; i++) ke = ke + vel[i] * vel[i];
  RJ et = F.p / ((Gamma - 1) * F.rho) + ke / 2;
  RJ H = et + F.p / F.rho;
  r.rho = d1(F.rho, 3); r.e = d1(F.rho * et, 3);
  for (int i = 0; i < dim; i++) r.m[i] = d1(F.rho * vel[i], 3) + d1(F.p, i);
  for (int j = 0; j < dim; j++) {
    r.rho = r.rho + d1(F.rho * vel[j], j);
    r.e = r.e + d1(F.rho * vel[j] * H, j);
    for (int i = 0; i < dim; i++) r.m[i] = r.m[i] + d1(F.rho * vel[i] * vel[j], j);
  }
  if (visc) {
    RJ div; for (int j = 0; j < dim; j++) div = div + D(vel[j], j);
    for (int i = 0; i < dim; i++)
      for (int j = 0; j < dim; j++) {
        RJ tau = mu * (D(vel[i], j) + D(vel[j], i));
        if (i == j) tau = tau - (Q(2) / 3) * mu * div;
        r.m[i] = r.m[i] - d1(tau, j);
        r.e = r.e - d1(tau * vel[i], j);
      }
    RJ T = F.p / (F.rho * R);
    for (int j = 0; j < dim; j++) r.e = r.e - k * d2(T, j, j);
  }
  return r;
}

bool cart_ref(const Cfg& c, const Params& P, const Pt& p, std::vector<Expect>& out) {
  RJ X = RJ::var(p.c[0], 0), Y = RJ::var(p.c[1], 1), Z = RJ::var(p.c[2], 2), T = RJ::var(p.c[3], 3);
  Fields F = roy(P, c.dim, c.tr, X, Y, Z, T);
  const Q margin = Q(1) / 16;
  if (!p.special && (F.rho.v < margin || F.p.v < margin)) return false;
  if (p.special && (qabs(F.rho.v) < margin)) return false;
  Res r = residual(F, c.dim, P("Gamma"), c.visc, c.visc ? P("mu") : Q(0), c.visc ? P("k") : Q(0), c.visc ? P("R") : Q(1));
  static const int* VARS_ST[] = {V_X, V_XY, V_XYZ};
  static const int* VARS_UN[] = {V_XT, V_XYT, V_XYZT};
  const int* vars = c.tr ? VARS_UN[c.dim - 1] : VARS_ST[c.dim - 1];
  std::string sig(c.dim + (c.tr ? 1 : 0), 'S');
  const char* pr = c.prop; const char* s = sig.c_str();
  bool autogen = c.tr && c.dim >= 2;  // auto-generated transient classes expose momentum/energy sources as source_u/v/w/e
  out.push_back(mk(pr, "source_rho", s, p, vars, r.rho));
  out.push_back(mk(pr, autogen ? "source_u" : "source_rho_u", s, p, vars, r.m[0]));
  if (c.dim >= 2) out.push_back(mk(pr, autogen ? "source_v" : "source_rho_v", s, p, vars, r.m[1]));
  if (c.dim >= 3) out.push_back(mk(pr, autogen ? "source_w" : "source_rho_w", s, p, vars, r.m[2]));
  out.push_back(mk(pr, autogen ? "source_e" : "source_rho_e", s, p, vars, r.e));
  out.push_back(mk(pr, "exact_rho", s, p, vars, val(F.rho)));
  out.push_back(mk(pr, "exact_u", s, p, vars, val(F.u)));
  if (c.dim >= 2) out.push_back(mk(pr, "exact_v", s, p, vars, val(F.v)));
  if (c.dim >= 3) out.push_back(mk(pr, "exact_w", s, p, vars, val(F.w)));
  out.push_back(mk(pr, "exact_p", s, p, vars, val(F.p)));
  if (c.grads) {
    struct G { const char* fn; const RJ* f; int mind; } gs[] = {{"grad_u", &F.u, 1}, {"grad_v", &F.v, 2}, {"grad_w", &F.w, 3}, {"grad_p", &F.p, 1}, {"grad_rho", &F.rho, 1}};
    for (auto& g : gs) {
      if (c.dim < g.mind) continue;
      if (c.dim == 1) { out.push_back(mk("C07", g.fn, "S", p, vars, d1(*g.f, 0))); continue; }
      std::string gsig = sig + "I";
      for (int i = -2; i <= c.dim + 2; i++) {
        Expect e = mk("C07", g.fn, gsig.c_str(), p, vars, (i >= 1 && i <= c.dim) ? d1(*g.f, i - 1) : VS(Q(-1), Q(1)));
        e.idx = i; if (i < 1 || i > c.dim) e.mode = 1;
        out.push_back(e);
      }
    }
  }
  return true;
}

struct Reg {
  Reg() {
    for (const Cfg& c : CFG) {
      System s; s.name = c.name; s.prop = c.prop; s.dim = c.dim;
      s.points = [c](int tier) {
        std::vector<int> vars; for (int i = 0; i < c.dim; i++) vars.push_back(i); if (c.tr) vars.push_back(3);
        int n = (tier && (c.dim + (c.tr ? 1 : 0)) <= 3) ? 3 : 2;
        std::vector<Pt> pts = grid(vars, n, GENERIC_VALS);
        pts.push_back(far_point());
        pts.push_back(Pt(0, 0, 0, 0, true));
        return pts;
      };
      s.allow = [](const std::string& n, LD v) {
        if ((n == "L" || n == "R") && v == 0) return false;
        if (n == "Gamma" && (v == 1 || v == 0)) return false;
        return true;
      };
      s.reference = [c](const Params& P, const Pt& p, std::vector<Expect>& out) { return cart_ref(c, P, p, out); };
      if (c.grads) s.extra_props.push_back("C07");
      s.max_dev_quick = 1; s.max_dev_thorough = 2;
      e1_systems().push_back(s);
    }
  }
} reg;
}  // namespace
