// C16 (i): the empty history.  Every solution-dependent public function -- all evaluator templates in both scalar types,
// the parameter/utility functions, and every extern "C" symbol -- is called in a forked child that never called
// masa_init: stdout must contain 'MASA FATAL ERROR' and the process must end with exit status 1.
#include "api_gen.hpp"
#include <masa.h>
#include <cstdio>
#include <cstring>
#include <fcntl.h>
#include <functional>
#include <iostream>
#include <string>
#include <sys/wait.h>
#include <unistd.h>
#include <vector>
using namespace MASA;
typedef long double LD;
struct CEval { const char* sym; const char* fn; const char* sig; double (*call)(const ApiArgs&); };
#include "c_eval_gen.hpp"
static int nbad = 0, nok = 0;
// registry context of the probes: 0 nothing initialised anywhere; 1 the double registry holds a selected solution (every long double
// entry point must still be fatal); 2 the long double registry holds one (every double and every C entry point must still be fatal)
static int g_ctx = 0;
static std::string g_registered;  // when non-empty: the probe child first registers this catalogue solution under handle "reg" (both registries)
static void probe(const std::string& name0, std::function<void()> f) {
  bool ld_side = name0.find("<long double>") != std::string::npos;
  if ((g_ctx == 1 && !ld_side) || (g_ctx == 2 && ld_side)) return;
  std::string name = name0 + (g_ctx == 1 ? " [double registry initialised]" : g_ctx == 2 ? " [long double registry initialised]" : "");
  int pfd[2]; if (pipe(pfd)) exit(2); fflush(stdout);
  pid_t pid = fork();
  if (pid == 0) { close(pfd[0]);
    if (!g_registered.empty()) { int dn = open("/dev/null", O_WRONLY); int saved = dup(1); dup2(dn, 1); masa_init<double>("reg", g_registered); masa_init<LD>("reg", g_registered); std::cout.flush(); fflush(stdout); dup2(saved, 1); close(saved); close(dn); }
    if (g_ctx) { int dn = open("/dev/null", O_WRONLY); int saved = dup(1); dup2(dn, 1); if (g_ctx == 1) masa_init<double>("other", "euler_1d"); else masa_init<LD>("other", "euler_1d"); std::cout.flush(); fflush(stdout); dup2(saved, 1); close(saved); close(dn); }
    dup2(pfd[1], 1); f(); std::cout.flush(); fflush(stdout); _exit(0); }
  close(pfd[1]); std::string out; char b[4096]; ssize_t n; while ((n = read(pfd[0], b, sizeof b)) > 0) out.append(b, n); close(pfd[0]); int st; waitpid(pid, &st, 0);
  bool ok = WIFEXITED(st) && WEXITSTATUS(st) == 1 && out.find("MASA FATAL ERROR") != std::string::npos;
  if (ok) { nok++; printf("OK %s\n", name.c_str()); } else { nbad++; printf("BAD %s: before any masa_init expected 'MASA FATAL ERROR' and exit status 1, got wait status %d, stdout='%.80s'\n", name.c_str(), st, out.c_str()); }
}
static void all_probes();
int main() {
  for (g_ctx = 0; g_ctx < 3; g_ctx++) all_probes();
  // the error path may look at what is registered (to list it, to suggest a handle ...): select(unknown) and init(bogus name) must keep to the
  // fatal-error protocol whatever catalogue solution the registry holds
  g_ctx = 0;
  { std::vector<std::string> cat; { int pfd[2]; if (pipe(pfd)) return 2; pid_t pid = fork(); if (pid == 0) { close(pfd[0]); dup2(pfd[1], 1); masa_printid<double>(); std::cout.flush(); _exit(0); } close(pfd[1]); std::string t; char b[4096]; ssize_t n; while ((n = read(pfd[0], b, sizeof b)) > 0) t.append(b, n); close(pfd[0]); int st; waitpid(pid, &st, 0);
      size_t p0 = 0; bool in = false; while (p0 < t.size()) { size_t p1 = t.find('\n', p0); if (p1 == std::string::npos) p1 = t.size(); std::string l = t.substr(p0, p1 - p0); p0 = p1 + 1; if (l.find("*---") != std::string::npos) { if (in) break; in = true; continue; } if (in && !l.empty()) cat.push_back(l); } }
    for (auto& sol : cat) { g_registered = sol;
      probe("masa_select_mms(unknown)<double> [registry holds " + sol + "]", [] { masa_select_mms<double>("nobody"); });
      probe("masa_select_mms(unknown)<long double> [registry holds " + sol + "]", [] { masa_select_mms<LD>("nobody"); });
      probe("masa_init(bogus solution)<double> [registry holds " + sol + "]", [] { masa_init<double>("h", "no_such_solution"); }); }
    g_registered.clear(); }
  fprintf(stderr, "empty-history probes: ok=%d bad=%d\n", nok, nbad);
  return 0;
}
static void all_probes() {
  ApiArgs A; for (int k = 0; k < 4; k++) A.s[k] = 0.25L * (k + 1); A.i = 1; A.fd = [](double T) { return T; }; A.fl = [](LD T) { return T; };
  for (int k = 0; k < API_N; k++) {
    const ApiEntry* e = &API_TABLE[k];
    probe(std::string("masa_eval_") + e->name + "<double>(" + e->sig + ")", [=] { e->cd(A); });
    probe(std::string("masa_eval_") + e->name + "<long double>(" + e->sig + ")", [=] { e->cl(A); });
  }
  for (auto& c : C_EVALS) probe(std::string("C ") + c.sym, [&] { c.call(A); });
#define BOTH(label, expr_d, expr_l) probe(std::string(label) + "<double>", [&] { expr_d; }); probe(std::string(label) + "<long double>", [&] { expr_l; });
  std::vector<double> vd(2, 1.0); std::vector<LD> vl(2, 1.0L); std::string nm; int dim;
  BOTH("masa_set_param", masa_set_param<double>("u_0", 1.0), masa_set_param<LD>("u_0", 1.0L));
  BOTH("masa_get_param", masa_get_param<double>("u_0"), masa_get_param<LD>("u_0"));
  BOTH("masa_purge_default_param", masa_purge_default_param<double>(), masa_purge_default_param<LD>());
  BOTH("masa_init_param", masa_init_param<double>(), masa_init_param<LD>());
  BOTH("masa_sanity_check", masa_sanity_check<double>(), masa_sanity_check<LD>());
  BOTH("masa_display_param", masa_display_param<double>(), masa_display_param<LD>());
  BOTH("masa_display_vec", masa_display_vec<double>(), masa_display_vec<LD>());
  BOTH("masa_get_name", masa_get_name<double>(&nm), masa_get_name<LD>(&nm));
  BOTH("masa_get_dimension", masa_get_dimension<double>(&dim), masa_get_dimension<LD>(&dim));
  BOTH("masa_set_vec", masa_set_vec<double>("vec_mean", vd), masa_set_vec<LD>("vec_mean", vl));
  BOTH("masa_get_vec", masa_get_vec<double>("vec_mean", vd), masa_get_vec<LD>("vec_mean", vl));
  BOTH("masa_test_poly", masa_test_poly<double>(), masa_test_poly<LD>());
  BOTH("pass_func", pass_func<double>([](double x) { return x; }, 1.0), pass_func<LD>([](LD x) { return x; }, 1.0L));
  BOTH("masa_select_mms(unknown)", masa_select_mms<double>("nobody"), masa_select_mms<LD>("nobody"));
  BOTH("masa_init(bogus solution)", masa_init<double>("h", "no_such_solution"), masa_init<LD>("h", "no_such_solution"));
  char buf[128] = "x"; double arr[8] = {0}; int n = 2;
  probe("C masa_set_param", [&] { masa_set_param("u_0", 1.0); }); probe("C masa_get_param", [&] { masa_get_param("u_0"); });
  probe("C masa_purge_default_param", [&] { masa_purge_default_param(); }); probe("C masa_init_param", [&] { masa_init_param(); });
  probe("C masa_sanity_check", [&] { masa_sanity_check(); }); probe("C masa_display_param", [&] { masa_display_param(); });
  probe("C masa_display_array", [&] { masa_display_array(); }); probe("C masa_get_name", [&] { masa_get_name(buf); });
  probe("C masa_get_dimension", [&] { masa_get_dimension(&dim); }); probe("C masa_set_array", [&] { masa_set_array("vec_mean", &n, arr); });
  probe("C masa_get_array", [&] { masa_get_array("vec_mean", &n, arr); }); probe("C masa_select_mms(unknown)", [&] { masa_select_mms("nobody"); });
  probe("C masa_init(bogus solution)", [&] { masa_init("h", "no_such_solution"); });
}

