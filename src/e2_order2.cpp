// C10 (c): order-2 evaluation histories over a scaling-symmetric neighbourhood.
// Hidden state that is keyed on *part* of the inputs (a product a*x, a single parameter, a coordinate) survives a change
// of the rest.  For every catalogue solution and both scalar types, every element e that differs from the base element by
// at most two moves -- a parameter scaled by {2, 1/2, -1, 8}, a coordinate scaled by {2, 1/2} (so that products and ratios
// of a parameter and a coordinate collide bit for bit) -- is evaluated (ALL provided evaluators) at the end of two
// different histories, [base -> e] and [z_e -> e] (z_e differs from e in exactly the moved inputs and in all
// coordinates), and base itself at the end of [e -> base] and [z_e -> base].  Oracle: history independence, i.e. the
// bits of every evaluator at the final element are the same in both histories.  No reference values are needed.
#include "api_gen.hpp"
#include <masa.h>
#include <algorithm>
#include <cerrno>
#include <cfenv>
#include <cmath>
#include <cstdio>
#include <cstring>
#include <fcntl.h>
#include <iostream>
#include <map>
#include <set>
#include <sstream>
#include <string>
#include <sys/wait.h>
#include <unistd.h>
#include <vector>
using namespace MASA;
typedef long double LD;
static std::string g_cap;
template <class F> static std::string capture(F f) {
  std::cout.flush(); fflush(stdout); int saved = dup(1); int fd = open(g_cap.c_str(), O_RDWR | O_CREAT | O_TRUNC, 0600);
  dup2(fd, 1); f(); std::cout.flush(); fflush(stdout); dup2(saved, 1); close(saved);
  off_t n = lseek(fd, 0, SEEK_END); lseek(fd, 0, SEEK_SET); std::string s(n, '\0'); if (n > 0) { ssize_t r = read(fd, &s[0], n); (void)r; } close(fd); return s;
}
struct Move { int kind; int idx; LD f; };  // kind 0: parameter idx scaled by f; kind 1: coordinate idx scaled by f
struct Elem { std::vector<Move> mv; };
template <class S> struct Runner {
  std::vector<std::string> names; std::vector<LD> base; std::vector<const ApiEntry*> ev; LD c0[4] = {0.3125L, 0.4375L, 0.28125L, 0.125L};
  std::vector<LD> cur; long evals = 0, sets = 0; int iG = -1, iMu = -1;  // iMu >= 0: mu is tied to Gamma as at the defaults, mu = (Gamma-1)/(Gamma+1) in the scalar type
  void set(int i, LD v) { if (cur[i] == v) return; masa_set_param<S>(names[i], (S)v); cur[i] = v; sets++; }
  void apply(const Elem& e, LD pscale, LD cscale, LD* c) {  // pscale/cscale != 0: the "far" predecessor z_e (moved parameters x pscale instead of their factor, all coordinates x cscale)
    std::vector<LD> want = base; for (int k = 0; k < 4; k++) c[k] = c0[k] * (cscale != 0 ? cscale : 1);
    for (auto& m : e.mv) { if (m.kind == 0) want[m.idx] = base[m.idx] * (pscale != 0 ? pscale : m.f); else if (cscale == 0) c[m.idx] = c0[m.idx] * m.f; }
    if (iMu >= 0) { S g = (S)want[iG]; want[iMu] = (LD)((g - 1) / (g + 1)); }
    for (size_t i = 0; i < want.size(); i++) set(i, want[i]);
  }
  std::string eval_one(const LD* c, size_t k) {
    ApiArgs A; for (int q = 0; q < 4; q++) A.s[q] = c[q]; A.i = 1; A.fd = [](double T) { return 2.75 + 0.25 * T; }; A.fl = [](LD T) { return 2.75L + 0.25L * T; };
    S r = sizeof(S) == 8 ? (S)ev[k]->cd(A) : (S)ev[k]->cl(A); evals++; return std::string((const char*)&r, sizeof(S) == 8 ? 8 : 10);
  }
  std::string eval_all(const LD* c) {
    std::string bits; ApiArgs A; for (int k = 0; k < 4; k++) A.s[k] = c[k]; A.i = 1; A.fd = [](double T) { return 2.75 + 0.25 * T; }; A.fl = [](LD T) { return 2.75L + 0.25L * T; };
    for (auto* e : ev) { S r = sizeof(S) == 8 ? (S)e->cd(A) : (S)e->cl(A); bits.append((const char*)&r, sizeof(S) == 8 ? 8 : 10); evals++; }
    return bits;
  }
};
static std::string desc(const std::vector<std::string>& names, const Elem& e) {
  std::string s = "base"; const char* cn[4] = {"x", "y", "z", "t"};
  for (auto& m : e.mv) { char b[96]; snprintf(b, sizeof b, " ; %s*%Lg", m.kind == 0 ? names[m.idx].c_str() : cn[m.idx], m.f); s += b; }
  return s;
}
// (h) a user function that itself calls the library (another evaluator of the same handle at another point) and returns what the plain
// user function returns: the outer evaluation must not notice
static const ApiEntry* g_reent = 0; static ApiArgs g_reargs;
static double cb_plain_d(double T) { return 2.75 + 0.25 * T; }
static LD cb_plain_l(LD T) { return 2.75L + 0.25L * T; }
static double cb_reent_d(double T) { if (g_reent) { ApiArgs B = g_reargs; B.fd = cb_plain_d; B.fl = cb_plain_l; g_reent->cd(B); } return cb_plain_d(T); }
static LD cb_reent_l(LD T) { if (g_reent) { ApiArgs B = g_reargs; B.fd = cb_plain_d; B.fl = cb_plain_l; g_reent->cl(B); } return cb_plain_l(T); }
template <class S> static void explore(const std::string& sol, const std::vector<std::string>& evnames, int tier, FILE* out, const char* scal) {
  Runner<S> R; std::cout.setstate(std::ios::failbit);
  { std::cout.clear(); capture([&] { masa_init<S>("o2", sol); }); std::string o = capture([] { masa_display_param<S>(); }); std::istringstream ps(o); std::string line;
    while (std::getline(ps, line)) { size_t p = line.find(" is set to:"); if (p != std::string::npos) R.names.push_back(line.substr(0, p)); } }
  for (auto& n : R.names) { LD d = (LD)masa_get_param<S>(n); R.base.push_back(d != 0 ? d : 0.75L); }
  R.cur.assign(R.names.size(), NAN);
  { int g = -1, m = -1; for (size_t i = 0; i < R.names.size(); i++) { if (R.names[i] == "Gamma") g = i; if (R.names[i] == "mu") m = i; }
    if (g >= 0 && m >= 0 && fabsl(R.base[m] - (R.base[g] - 1) / (R.base[g] + 1)) < 1e-9L) { R.iG = g; R.iMu = m; } }
  for (auto& k : evnames) { size_t sl = k.find('/'); const ApiEntry* e = api_find(k.substr(0, sl).c_str(), k.substr(sl + 1).c_str()); if (e) R.ev.push_back(e); }
  if (R.ev.empty()) return;
  // which coordinates matter at all: the largest number of scalar arguments among the evaluators
  int ncoord = 0; for (auto* e : R.ev) ncoord = std::max(ncoord, e->ns);
  std::vector<Move> moves; int n = R.names.size();
  for (int i = 0; i < n; i++) { if (i == R.iMu) continue; for (LD f : {2.0L, 0.5L, -1.0L, 8.0L}) moves.push_back({0, i, f}); if (i == R.iG && R.iMu >= 0) for (LD f : {1.1875L, 0.875L}) moves.push_back({0, i, f}); }  // (tied Gamma: also moves that keep Gamma > 1)
  // far regime of one parameter (three decades up and down), as single moves only: a branch that is not taken there must not leave
  // behind what an earlier evaluation in the ordinary regime computed
  std::vector<Move> far_moves; for (int i = 0; i < n; i++) { if (i == R.iMu || i == R.iG) continue; far_moves.push_back({0, i, 1024.0L}); far_moves.push_back({0, i, 0.0009765625L}); }
  size_t nparam_moves = moves.size();
  for (int j = 0; j < ncoord; j++) for (LD f : {2.0L, 0.5L}) moves.push_back({1, j, f});
  std::vector<Elem> targets; targets.push_back(Elem());
  for (auto& m : moves) { Elem e; e.mv = {m}; targets.push_back(e); }
  if (n > 4) for (auto& m : far_moves) { Elem e; e.mv = {m}; targets.push_back(e); }
  bool allpairs = tier ? n <= 64 : n <= 32;
  for (size_t a = 0; a < moves.size(); a++) for (size_t b = a + 1; b < moves.size(); b++) {
    if (moves[a].kind == moves[b].kind && moves[a].idx == moves[b].idx) continue;
    bool pc = a < nparam_moves && b >= nparam_moves;  // (parameter move, coordinate move): the collision pairs, always explored
    if (!pc && !allpairs) continue;
    Elem e; e.mv = {moves[a], moves[b]}; targets.push_back(e);
  }
  long hist = 0, viol = 0, aborted = 0; Elem base;
  size_t w0 = sizeof(S) == 8 ? 8 : 10;
  bool fork_each = n <= 4;  // tiny solutions (sod_1d): one process per element, because an inadmissible element may make the library abort
  // reference for (e), taken BEFORE this process has evaluated anything in this scalar type (a child forked later would inherit whatever
  // the evaluators have bound or cached by then): the values of assignment B = 1.0625 x base, computed on a handle of its own
  std::string ref;
  if (n > 0) {
    LD cb0[4]; for (int k = 0; k < 4; k++) cb0[k] = R.c0[k];
    int pfd[2]; if (pipe(pfd)) _exit(4); fflush(out); pid_t c = fork();
    if (c == 0) { close(pfd[0]); int dn = open("/dev/null", O_WRONLY); dup2(dn, 1); close(dn); masa_init<S>("fresh_b", sol); for (int i = 0; i < n; i++) masa_set_param<S>(R.names[i], (S)(R.base[i] * 1.0625L)); std::string v = R.eval_all(cb0); LD cax[4] = {0, cb0[1], cb0[2], cb0[3]}; v += R.eval_all(cax); ssize_t wr = write(pfd[1], v.data(), v.size()); (void)wr; _exit(0); }
    close(pfd[1]); char b[8192]; ssize_t r; while ((r = read(pfd[0], b, sizeof b)) > 0) ref.append(b, r); close(pfd[0]); int st; waitpid(c, &st, 0); if (!WIFEXITED(st) || WEXITSTATUS(st) != 0) ref.clear();
  }
  // (d) process-global C state the library does not own: errno left behind by anybody's libm call and the floating-point exception flags.
  // The bits of every evaluator at the base element must not depend on them.
  {
    LD cb0[4]; R.apply(base, 0, 0, cb0); errno = 0; feclearexcept(FE_ALL_EXCEPT); std::string clean = R.eval_all(cb0);
    for (int poison : {EDOM, ERANGE, EINVAL}) {
      errno = poison; feraiseexcept(FE_INVALID | FE_DIVBYZERO | FE_OVERFLOW | FE_UNDERFLOW | FE_INEXACT); std::string dirty = R.eval_all(cb0); hist++;
      for (size_t k = 0; k < R.ev.size(); k++) if (clean.compare(k * w0, w0, dirty, k * w0, w0) != 0 && viol < 40) { viol++; fprintf(out, "V\t%s\t%s\t%s/%s\tvalue at the base element depends on process-global C state: with errno=%d and the floating-point exception flags raised before the call it differs from the value with errno=0 and flags clear\n", sol.c_str(), scal, R.ev[k]->name, R.ev[k]->sig, poison); }
    }
    errno = 0; feclearexcept(FE_ALL_EXCEPT);
  }
  // (e) two instances of this solution on two handles: B differs from A in one parameter.  Every evaluator must follow the selection:
  // on B it returns the bits a fresh process computes for B's assignment, back on A the bits of A.
  if (n > 0) {
    LD cb0[4]; R.apply(base, 0, 0, cb0); LD cax[4] = {0, cb0[1], cb0[2], cb0[3]};  // second point: on the plane x = 0 (the axis r = 0 of the axisymmetric solutions)
    std::string va = R.eval_all(cb0) + R.eval_all(cax);
    int pi = n / 2;  // B: every parameter 6 percent off A (each evaluator depends on at least one of them)
    if (ref.size() == va.size()) {
      std::vector<LD> keep = R.cur; capture([&] { masa_init<S>("o2b", sol); }); R.cur.assign(n, NAN); for (int i = 0; i < n; i++) R.set(i, R.base[i] * 1.0625L);
      std::string vb = R.eval_all(cb0) + R.eval_all(cax); capture([&] { masa_select_mms<S>("o2"); }); R.cur = keep; std::string va2 = R.eval_all(cb0) + R.eval_all(cax); hist += 4;
      for (size_t k = 0; k < 2 * R.ev.size(); k++) {
        if (vb.compare(k * w0, w0, ref, k * w0, w0) != 0 && viol < 40) { viol++; fprintf(out, "V\t%s\t%s\t%s/%s\ton a second handle of the same solution (all parameters 6 percent off, e.g. %s) the value differs from what a fresh process computes for that assignment: the evaluator does not follow the selection%s\n", sol.c_str(), scal, R.ev[k % R.ev.size()]->name, R.ev[k % R.ev.size()]->sig, R.names[pi].c_str(), k >= R.ev.size() ? " (at the point with first coordinate 0)" : ""); }
        if (va2.compare(k * w0, w0, va, k * w0, w0) != 0 && viol < 40) { viol++; fprintf(out, "V\t%s\t%s\t%s/%s\tvalue on the first handle changed after a second handle of the same solution was initialised, modified and evaluated\n", sol.c_str(), scal, R.ev[k % R.ev.size()]->name, R.ev[k % R.ev.size()]->sig); }
      }
    }
  }
  std::cout.setstate(std::ios::failbit);
  // (fork_each is declared above)  tiny solutions (sod_1d): one process per target, because an inadmissible element may make the library abort
  // (i) the library must leave the process-global floating-point CONTROL state alone (x87 precision/rounding control word, SSE MXCSR control
  // bits, fegetround): every parameter is swept finely (the iteration count of an internal solver, and with it the path it leaves by,
  // depends on the value) and the control state is compared after every evaluation
  if (!getenv("O2_SELECTION_ONLY") && n > 0) {
    auto ctl = [] { unsigned short cw = 0; unsigned int mx = 0;
#if defined(__x86_64__) || defined(__i386__)
      __asm__ __volatile__("fnstcw %0" : "=m"(cw)); __asm__ __volatile__("stmxcsr %0" : "=m"(mx)); mx &= 0xFFC0u;  // control bits only (status flags masked)
#endif
      return std::make_pair((unsigned)cw | ((unsigned)fegetround() << 16), mx); };
    auto c0 = ctl(); LD cs[4]; int per = std::max(8, std::min(512, 2048 / n)); bool reported = false;
    for (int i = 0; i < n && !reported; i++) { if (i == R.iMu) continue;
      for (int k = 1; k <= per && !reported; k++) {
        LD f = 0.75L + 2.25L * k / per;  // 0.75 .. 3 times the base value
        pid_t fc = 0; if (fork_each) { fflush(out); fc = fork(); if (fc != 0) { int st; waitpid(fc, &st, 0); if (WIFEXITED(st) && WEXITSTATUS(st) == 7) reported = true; continue; } else { int dn = open("/dev/null", O_WRONLY); dup2(dn, 1); close(dn); } }
        Elem e1; e1.mv = {{0, i, f}}; R.apply(e1, 0, 0, cs); R.eval_all(cs); auto c1 = ctl(); hist++;
        if (c1 != c0) { viol++; reported = true; fprintf(out, "V\t%s\t%s\t*\tan evaluation with %s = %Lg x base changed the floating-point control state of the process (x87 control word / rounding mode %#x -> %#x, MXCSR control %#x -> %#x): every later long double result of every solution is affected\n", sol.c_str(), scal, R.names[i].c_str(), f, c0.first, c1.first, c0.second, c1.second); fflush(out); if (fork_each) _exit(7); }
        if (fork_each) _exit(0);
      } }
    if (!fork_each) R.apply(base, 0, 0, cs);
  }
  // (h) re-entrant user functions
  if (!getenv("O2_SELECTION_ONLY")) for (size_t k = 0; k < R.ev.size(); k++) if (strchr(R.ev[k]->sig, 'F')) for (size_t q = 0; q < R.ev.size(); q++) {
    LD cb0[4]; R.apply(base, 0, 0, cb0);
    ApiArgs A; for (int t = 0; t < 4; t++) A.s[t] = cb0[t]; A.i = 1; A.fd = cb_plain_d; A.fl = cb_plain_l;
    S plain = sizeof(S) == 8 ? (S)R.ev[k]->cd(A) : (S)R.ev[k]->cl(A);
    g_reent = R.ev[q]; g_reargs = A; for (int t = 0; t < 4; t++) g_reargs.s[t] = cb0[t] * 4 + 1.25L; A.fd = cb_reent_d; A.fl = cb_reent_l;
    S re = sizeof(S) == 8 ? (S)R.ev[k]->cd(A) : (S)R.ev[k]->cl(A); g_reent = 0; hist++;
    if (memcmp(&plain, &re, sizeof(S) == 8 ? 8 : 10) != 0 && viol < 40) { viol++; fprintf(out, "V\t%s\t%s\t%s/%s\tvalue changes when the user function itself evaluates %s/%s of the same handle at another point (and returns the same number)\n", sol.c_str(), scal, R.ev[k]->name, R.ev[k]->sig, R.ev[q]->name, R.ev[q]->sig); }
  }
  // (f) partly uninitialised states: one parameter, or two, hold the "uninitialised" marker -12345.67 (what masa_purge_default_param stores)
  // while all others are set -- evaluating must still not write any registered parameter ("derive a default when the user left it unset")
  if (!getenv("O2_SELECTION_ONLY") && n > 4) {
    std::vector<int> sel; for (int i = 0; i < n; i++) { const std::string& nm = R.names[i]; bool mode = nm.size() > 2 && nm[1] == '_' && nm[0] >= 'a' && nm[0] <= 'g'; if (n <= 60 || !mode) sel.push_back(i); }
    if (sel.size() > 24 && tier == 0) sel.resize(24);
    auto snapshot = [&] { std::string b; for (int i = 0; i < n; i++) { S v = masa_get_param<S>(R.names[i]); b.append((const char*)&v, sizeof(S) == 8 ? 8 : 10); } return b; };
    LD cb0[4]; 
    for (size_t a = 0; a < sel.size(); a++) for (size_t b = a; b < sel.size(); b++) {
      R.apply(base, 0, 0, cb0); R.set(sel[a], (LD)-12345.67); R.set(sel[b], (LD)-12345.67);
      std::string before = snapshot(); R.eval_all(cb0); std::string after = snapshot(); hist++;
      if (before != after && viol < 40) { viol++; int w = -1; size_t ww = sizeof(S) == 8 ? 8 : 10; for (int i = 0; i < n; i++) if (before.compare(i * ww, ww, after, i * ww, ww) != 0) { w = i; break; }
        fprintf(out, "V\t%s\t%s\t*\tevaluating with %s%s%s left at the uninitialised marker changed the registered parameter %s\n", sol.c_str(), scal, R.names[sel[a]].c_str(), a == b ? "" : " and ", a == b ? "" : R.names[sel[b]].c_str(), w >= 0 ? R.names[w].c_str() : "?"); }
    }
    R.apply(base, 0, 0, cb0);
  }
  // (g) evaluation-before-purge differential: handle A = [init; all evaluators; purge; k parameter writes; all evaluators], handle B = the same
  // without the first evaluation.  Same parameters, same point: the bits must agree for every k = 1 .. 2n+2 (the writes cycle through the
  // parameters, so every small modification count occurs) -- whatever an evaluation remembered before the purge must not survive it.
  if (!getenv("O2_SELECTION_ONLY") && n > 4) {
    LD cg[4]; for (int k = 0; k < 4; k++) cg[k] = R.c0[k];
    int kmax = std::min(2 * n + 2, tier ? 500 : 120);
    for (int k = 1; k <= kmax; k++) {
      std::string hb[2];
      for (int variant = 0; variant < 2; variant++) {
        std::string h = std::string(variant ? "gB" : "gA"); capture([&] { masa_init<S>(h, sol); });
        if (variant == 0) R.eval_all(cg);
        masa_purge_default_param<S>();
        for (int q = 0; q < k; q++) { int i = q % n; masa_set_param<S>(R.names[i], (S)(R.base[i] * (1.0L + (q / n + 1) * 0.015625L))); }
        hb[variant] = R.eval_all(cg);
      }
      hist++;
      for (size_t q = 0; q < R.ev.size(); q++) if (hb[0].compare(q * w0, w0, hb[1], q * w0, w0) != 0 && viol < 40) { viol++; fprintf(out, "V\t%s\t%s\t%s/%s\tafter [init, purge, %d parameter writes] the value depends on whether the evaluators had been called before the purge\n", sol.c_str(), scal, R.ev[q]->name, R.ev[q]->sig, k); }
    }
    capture([&] { masa_select_mms<S>("o2"); }); R.cur.assign(n, NAN);
  }
  if (getenv("O2_SELECTION_ONLY")) targets.clear();  // C12 runs part (e) only
  for (auto& e : targets) {
    LD c[4], cz[4], cb[4];
    pid_t tp = 0;
    if (fork_each) { fflush(out); tp = fork(); if (tp != 0) { int st; waitpid(tp, &st, 0); hist += 4; if (WIFEXITED(st) && WEXITSTATUS(st) == 1) aborted++; else if (!WIFEXITED(st) || WEXITSTATUS(st) != 0) { viol++; fprintf(out, "V\t%s\t%s\t?\tprocess terminated abnormally (status %d) at element [%s]\n", sol.c_str(), scal, st, desc(R.names, e).c_str()); } else if (WEXITSTATUS(st) == 0) {} continue; } else { int dn = open("/dev/null", O_WRONLY); dup2(dn, 1); close(dn); } }
    // history 1: base -> e ; history 2: z_e -> e
    R.apply(base, 0, 0, cb); R.eval_all(cb); R.apply(e, 0, 0, c); std::string v1 = R.eval_all(c);
    R.apply(e, 1.3125L, 1.6875L, cz); R.eval_all(cz); R.apply(e, 0, 0, c); std::string v2 = R.eval_all(c);
    // and back: e -> base ; z_e -> base
    R.apply(base, 0, 0, cb); std::string b1 = R.eval_all(cb);
    R.apply(e, 1.3125L, 1.6875L, cz); R.eval_all(cz); R.apply(base, 0, 0, cb); std::string b2 = R.eval_all(cb);
    hist += 4;
    size_t w = sizeof(S) == 8 ? 8 : 10;
    // purge-and-set-everything histories (base and one-move elements): after [base: all evaluators] the handle is purged and EVERY parameter
    // is set by hand, one call each, to the element's values -- the workflow of a user who does not trust the defaults.  The values must
    // be those of the element reached the ordinary way (a cache validated by a modification count comes back to the same count here).
    if (e.mv.size() <= 1 && n > 0) {
      R.apply(base, 0, 0, cb); R.eval_all(cb);
      LD cc[4]; std::vector<LD> want = R.base; for (int k2 = 0; k2 < 4; k2++) cc[k2] = R.c0[k2];
      for (auto& m : e.mv) { if (m.kind == 0) want[m.idx] = R.base[m.idx] * m.f; else cc[m.idx] = R.c0[m.idx] * m.f; }
      if (R.iMu >= 0) { S g = (S)want[R.iG]; want[R.iMu] = (LD)((g - 1) / (g + 1)); }
      masa_purge_default_param<S>(); for (int i = 0; i < n; i++) { masa_set_param<S>(R.names[i], (S)want[i]); R.cur[i] = want[i]; R.sets++; }
      std::string vp = R.eval_all(cc); hist++;
      for (size_t k = 0; k < R.ev.size(); k++) if (vp.compare(k * w, w, v1, k * w, w) != 0 && viol < 40) { viol++; fprintf(out, "V\t%s\t%s\t%s/%s\tvalue at element [%s] after [base, purge, every parameter set by hand] differs from the value reached by changing only the moved parameter\n", sol.c_str(), scal, R.ev[k]->name, R.ev[k]->sig, desc(R.names, e).c_str()); }
    }
    // single-evaluator detours (one-move elements only): [base: all evaluators] -> [e: evaluator k ALONE] -> [base: all evaluators]; hidden state
    // that one evaluator updates only partly is repaired by its siblings in the all-evaluator histories above
    if (e.mv.size() == 1 && R.ev.size() > 1) for (size_t k = 0; k < R.ev.size(); k++) {
      R.apply(base, 0, 0, cb); std::string r0 = R.eval_all(cb); R.apply(e, 0, 0, c); R.eval_one(c, k); R.apply(base, 0, 0, cb); std::string r1 = R.eval_all(cb); hist++;
      for (size_t q = 0; q < R.ev.size(); q++) if (r0.compare(q * w, w, r1, q * w, w) != 0 && viol < 40) { viol++; fprintf(out, "V\t%s\t%s\t%s/%s\tvalue at the base element changes after a detour [%s] on which only %s/%s was evaluated\n", sol.c_str(), scal, R.ev[q]->name, R.ev[q]->sig, desc(R.names, e).c_str(), R.ev[k]->name, R.ev[k]->sig); }
    }
    for (size_t k = 0; k < R.ev.size(); k++) {
      if (v1.compare(k * w, w, v2, k * w, w) != 0 && viol < 40) { viol++; fprintf(out, "V\t%s\t%s\t%s/%s\tvalue at element [%s] depends on the history: after [base] it differs from after [far predecessor]\n", sol.c_str(), scal, R.ev[k]->name, R.ev[k]->sig, desc(R.names, e).c_str()); }
      if (b1.compare(k * w, w, b2, k * w, w) != 0 && viol < 40) { viol++; fprintf(out, "V\t%s\t%s\t%s/%s\tvalue at the base element depends on the history: after [%s] it differs from after [far predecessor]\n", sol.c_str(), scal, R.ev[k]->name, R.ev[k]->sig, desc(R.names, e).c_str()); }
    }
    if (fork_each) { fflush(out); _exit(0); }
  }
  fprintf(out, "C\t%s\t%s\t%zu\t%zu\t%zu\t%ld\t%ld\t%ld\t%d\t%ld\n", sol.c_str(), scal, R.names.size(), R.ev.size(), targets.size(), hist, fork_each ? (long)(hist * R.ev.size()) : R.evals, viol, (int)allpairs, aborted);
}
int main(int argc, char** argv) {
  // usage: e2_order2 <caps file> <out> <tier>
  std::map<std::string, std::vector<std::string>> D; std::vector<std::string> order;
  { FILE* f = fopen(argv[1], "r"); char line[1024], a[256], b[256], s[64]; int v; while (fgets(line, sizeof line, f)) if (sscanf(line, "cap %255s %255s %63s %d", a, b, s, &v) == 4 && v) { if (!D.count(a)) order.push_back(a); D[a].push_back(std::string(b) + "/" + (strcmp(s, "-") ? s : "")); } fclose(f); }
  int tier = argc > 3 && !strcmp(argv[3], "thorough"); FILE* out = fopen(argv[2], "w");
  std::vector<pid_t> running;
  for (auto& sol : order) {
    if (sol == "masa_test_function" || sol == "masa_uninit") continue;
    while (running.size() >= 16) { int st; pid_t p = wait(&st); running.erase(std::remove(running.begin(), running.end(), p), running.end()); if (!WIFEXITED(st) || WEXITSTATUS(st) != 0) fprintf(out, "V\t?\t?\t?\ta worker process terminated abnormally (status %d)\n", st); }
    fflush(out); pid_t pid = fork();
    if (pid == 0) { alarm(tier ? 3000 : 300); g_cap = std::string(argv[2]) + ".cap." + std::to_string(getpid()); std::string wf = std::string(argv[2]) + "." + sol; FILE* fo = fopen(wf.c_str(), "w");
      explore<double>(sol, D[sol], tier, fo, "d"); explore<LD>(sol, D[sol], tier, fo, "ld"); fclose(fo); unlink(g_cap.c_str()); _exit(0); }
    running.push_back(pid);
  }
  while (!running.empty()) { int st; pid_t p = wait(&st); running.erase(std::remove(running.begin(), running.end(), p), running.end()); if (!WIFEXITED(st) || WEXITSTATUS(st) != 0) fprintf(out, "V\t?\t?\t?\ta worker process terminated abnormally (status %d)\n", st); }
  for (auto& sol : order) { std::string wf = std::string(argv[2]) + "." + sol; FILE* fi = fopen(wf.c_str(), "r"); if (!fi) continue; char b[65536]; size_t n; while ((n = fread(b, 1, sizeof b, fi)) > 0) fwrite(b, 1, n, out); fclose(fi); unlink(wf.c_str()); }
  fclose(out); return 0;
}
