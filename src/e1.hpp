// E1: deviation-bounded lattice explorer (configurations x inputs), shared declarations.
#pragma once
#include "rj.hpp"
#include <functional>
#include <map>
#include <string>
#include <vector>
#include <cstdlib>

struct Params {
  std::vector<std::string> names;  // registration (display) order
  std::map<std::string, LD> m;
  bool has(const std::string& n) const { return m.count(n) != 0; }
  Q operator()(const std::string& n) const {
    auto it = m.find(n);
    if (it == m.end()) { fprintf(stderr, "E1 HARNESS ERROR: reference model asks for unknown parameter '%s'\n", n.c_str()); exit(2); }
    return (Q)it->second;
  }
  Q opt(const std::string& n, Q dflt) const { auto it = m.find(n); return it == m.end() ? dflt : (Q)it->second; }
};

struct Pt { LD c[4]; bool special; int variant = 0; Pt() : special(false) { c[0] = c[1] = c[2] = c[3] = 0; } Pt(LD x, LD y, LD z, LD t, bool sp = false) : special(sp) { c[0] = x; c[1] = y; c[2] = z; c[3] = t; } };  // x (or r, eta), y (or z for axisymmetric), z, t  -- jet variables 0..3

// one expected observation of the library at a lattice element
struct Expect {
  std::string prop;  // property this expectation belongs to (C01..C08, C07 for gradients)
  std::string fn;    // API short name, e.g. "source_rho_u"
  std::string sig;   // S,I,F string
  LD a[4]; int idx; int cb;  // arguments (cb = callback alphabet index, -1 none)
  VS ref;            // reference value and scale
  int mode;          // 0: |lib-ref|<=K u S ; 1: exactly ref.v (sentinel -1) ; 2: NaN expected
  std::string alt_id; VS alt;  // optional known-finding signature: what the defective library computes
  bool special;      // special point: only finiteness is required
  bool has_cb_arg; VS cb_arg;  // C06: the argument the library must pass to the callback (exact temperature)
  Expect() : idx(0), cb(-1), mode(0), special(false), has_cb_arg(false) { a[0] = a[1] = a[2] = a[3] = 0; }
};

struct System {
  std::string name;   // label (= catalogue name unless `solution` is set)
  std::string solution;  // catalogue name passed to masa_init when it differs from the label
  const std::string& sol() const { return solution.empty() ? name : solution; }
  std::string prop;   // primary property (C01..C08)
  int dim;            // jet variables used for the spatial lattice
  // adjust the generic base assignment to an admissible one (positivity etc.)
  std::function<void(Params&)> base;
  // per-parameter deviation alphabet hook: return false to forbid a candidate value
  std::function<bool(const std::string&, LD)> allow;
  // lattice points for tier (0 quick, 1 thorough); special points appended with .special expectations by reference()
  std::function<std::vector<Pt>(int)> points;
  // reference model: append expectations; return false if the assignment is inadmissible at this point
  std::function<bool(const Params&, const Pt&, std::vector<Expect>&)> reference;
  // optional replacement of the generic deviation alphabet {default,0,-base,2*base+1/8}: (name, base, default) -> candidate values
  std::function<std::vector<LD>(const std::string&, LD, LD)> alphabet;
  // optional discrete variant carried by lattice points (e.g. which data vector is installed): called before a point is evaluated
  std::function<void(int)> apply_variant;
  // parameters that must never deviate independently (derived ones); engine keeps them at base
  std::vector<std::string> frozen;
  // optional hook run after every assignment change (e.g. re-derive dependent parameters)
  std::function<void(Params&)> derive;
  std::vector<std::string> extra_props;  // further properties its expectations are tagged with (e.g. C07 gradients)
  // extra two-deviation assignments explored even when the deviation bound is 1: both parameters of a pair set to 0 (shortcuts that
  // fire only when several amplitudes vanish together). Returns a group label; pairs are formed inside a group. Empty label = not grouped.
  std::function<std::string(const std::string&)> zero_pair_group;
  // structured assignments with any number of deviations (e.g. "field T does not depend on x and y": all amplitudes of its x- and
  // y-dependent modes zero): list of (parameter name, value) sets, explored in addition to the deviation ball
  std::function<std::vector<std::vector<std::pair<std::string, LD>>>(const std::vector<std::string>&)> structured;
  // families of like parameters inside which zero sets of any size are explored (default: amplitudes X_d that have a frequency a_Xd, and those frequencies)
  std::function<std::vector<std::vector<std::string>>(const std::vector<std::string>&)> zero_families;
  bool pointwise_admissibility;  // an inadmissible (assignment, point) pair drops only that point, not the whole assignment
  int singular_axis = -1;  // coordinate whose zero plane is outside the domain (r = 0 of the axisymmetric solutions): no boundary point there
  bool no_default_ball = false;  // skip the default-centred assignments (systems whose defaults are outside the reference model's admissible set)
  bool no_boundary_points = false;  // do not append the per-assignment boundary points (coordinate = length parameter, coordinate planes)
  bool base_from_default;  // base = library defaults x distinct factors in (1, 1.07) instead of the generic base
  int max_dev_quick, max_dev_thorough;
  System() : dim(1), pointwise_admissibility(false), base_from_default(false), max_dev_quick(1), max_dev_thorough(2) {}
};

std::vector<System>& e1_systems();
void e1_count(const std::string& key);  // coverage counters reported in the evidence (e.g. which model branch a point took)
Q e1_callback_ref(int k, Q T); int e1_callback_count();
struct E1Register { E1Register(const System& s) { e1_systems().push_back(s); } };

// helpers for reference models -------------------------------------------------------------
static inline Expect mk(const char* prop, const char* fn, const char* sig, const Pt& p, const int* vars, VS ref) {
  Expect e; e.prop = prop; e.fn = fn; e.sig = sig; int k = 0;
  for (const char* c = sig; *c; c++) if (*c == 'S') { e.a[k] = p.c[vars[k]]; k++; }
  e.ref = ref; return e;
}
static const int V_X[] = {0}, V_XY[] = {0, 1}, V_XYZ[] = {0, 1, 2}, V_XYZT[] = {0, 1, 2, 3}, V_XT[] = {0, 3}, V_XYT[] = {0, 1, 3};
// keep `bits` significant bits: exactly representable in double, long double and float128
static inline LD dyround(LD v, int bits = 24) { if (v == 0) return 0; int e; LD m = frexpl(v, &e); return ldexpl(roundl(ldexpl(m, bits)), e - bits); }
// dyadic rational helper: k/1024
static inline LD dy(long k) { return (LD)k / 1024.0L; }
// product lattice: n values per coordinate (n=2 quick, 3 thorough) on the first `dim` jet variables (+ time if tr)
static inline std::vector<Pt> grid(const std::vector<int>& vars, int n, const LD vals[4][3]) {
  std::vector<Pt> out; int nv = vars.size(); std::vector<int> ix(nv, 0);
  while (true) {
    Pt p; for (int k = 0; k < 4; k++) p.c[k] = vals[k][0];
    for (int k = 0; k < nv; k++) p.c[vars[k]] = vals[vars[k]][ix[k]];
    out.push_back(p);
    int k = 0; while (k < nv && ++ix[k] == n) { ix[k] = 0; k++; }
    if (k == nv) break;
  }
  return out;
}
// a point far outside the first period / unit box, mixed signs (periodic folding, sign-dependent shortcuts)
static inline Pt far_point() { return Pt(-5.40625L, 7.28125L, -9.09375L, 6.21875L); }
// generic asymmetric dyadic coordinate values (x != y != z != t, none a zero of sin/cos for base wave numbers)
static const LD GENERIC_VALS[4][3] = {{dy(320), dy(1104), dy(2352)}, {dy(448), dy(928), dy(1936)}, {dy(288), dy(1248), dy(2656)}, {dy(128), dy(800), dy(3168)}};
