// C12 (scale): many handles in one registry.  N handles are registered (two solution types alternating, one parameter distinct per handle);
// afterwards every handle is selected again and must still hold its own solution and its own parameter value, in both registries.
#include <masa.h>
#include <cstdio>
#include <cstdlib>
#include <fcntl.h>
#include <string>
#include <unistd.h>
using namespace MASA;
typedef long double LD;
template <class S> static long run(int N, const char* scal) {
  long bad = 0;
  for (int i = 0; i < N; i++) { std::string h = "handle_" + std::to_string(i); bool e = i % 2 == 0; masa_init<S>(h, e ? "euler_1d" : "heateq_2d_steady_const"); masa_set_param<S>(e ? "u_0" : "A_x", (S)(i + 0.5)); }
  for (int i = 0; i < N; i++) { std::string h = "handle_" + std::to_string(i); bool e = i % 2 == 0; masa_select_mms<S>(h); std::string nm; masa_get_name<S>(&nm); S v = masa_get_param<S>(e ? "u_0" : "A_x");
    if (nm != (e ? "euler_1d" : "heateq_2d_steady_const") || v != (S)(i + 0.5)) { if (bad++ < 5) fprintf(stderr, "BAD <%s> handle_%d of %d: holds %s with %s = %Lg (expected %s, %g)\n", scal, i, N, nm.c_str(), e ? "u_0" : "A_x", (LD)v, e ? "euler_1d" : "heateq_2d_steady_const", i + 0.5); } }
  return bad;
}
int main(int argc, char** argv) {
  int N = argc > 1 ? atoi(argv[1]) : 300;
  int dn = open("/dev/null", O_WRONLY); dup2(dn, 1); close(dn);
  long bad = run<double>(N, "double") + run<LD>(N > 2000 ? 2000 : N, "long double");
  fprintf(stderr, "TOTAL %d %ld\n", N, bad);
  return 0;
}
