// C12 (scale): many handles in one registry.  N handles are registered (two solution types alternating, one parameter distinct per handle);
// afterwards every handle is selected again and must still hold its own solution and its own parameter value, in both registries.
#include <masa.h>
#include <cstdio>
#include <cstdlib>
#include <fcntl.h>
#include <iostream>
#include <string>
#include <unistd.h>
using namespace MASA;
typedef long double LD;
template <class S> static long run(int N, const char* scal) {
  long bad = 0;
  for (int i = 0; i < N; i++) { std::string h = "handle_" + std::to_string(i); bool e = i % 2 == 0; masa_init<S>(h, e ? "euler_1d" : "heateq_2d_steady_const"); masa_set_param<S>(e ? "u_0" : "A_x", (S)(i + 0.5)); }
  for (int i = 0; i < N; i++) { std::string h = "handle_" + std::to_string(i); bool e = i % 2 == 0; masa_select_mms<S>(h); std::string nm; masa_get_name<S>(&nm); S v = masa_get_param<S>(e ? "u_0" : "A_x");
    if (nm != (e ? "euler_1d" : "heateq_2d_steady_const") || v != (S)(i + 0.5)) { if (bad++ < 5) fprintf(stderr, "BAD <%s> handle_%d of %d: holds %s with %s = %Lg (expected %s, %g)\n", scal, i, N, nm.c_str(), e ? "u_0" : "A_x", (LD)v, e ? "euler_1d" : "heateq_2d_steady_const", i + 0.5); } }
  // re-initialisation inside a large registry: first, middle, last created and last sorted handle get the other solution and a new value;
  // after selecting another handle and coming back they must hold exactly that
  if (N >= 20) {
    int picks[5] = {0, N / 2, N - 1, 9, 99 < N ? 99 : N - 2};  // handle_9 / handle_99 sort last among handle_0..handle_N-1 for N <= 100 / <= 1000
    for (int q = 0; q < 5; q++) { int i = picks[q]; std::string h = "handle_" + std::to_string(i); bool e = i % 2 == 0;  // now the OTHER solution
      masa_init<S>(h, e ? "heateq_2d_steady_const" : "euler_1d"); masa_set_param<S>(e ? "A_x" : "u_0", (S)(1000 + i + 0.25));
      masa_select_mms<S>("handle_1"); masa_select_mms<S>(h); std::string nm; masa_get_name<S>(&nm); S v = masa_get_param<S>(e ? "A_x" : "u_0");
      if (nm != (e ? "heateq_2d_steady_const" : "euler_1d") || v != (S)(1000 + i + 0.25)) { if (bad++ < 8) fprintf(stderr, "BAD <%s> handle_%d of %d re-initialised with %s: after selecting another handle and coming back it holds %s with value %Lg\n", scal, i, N, e ? "heateq_2d_steady_const" : "euler_1d", nm.c_str(), (LD)v); } }
  }
  return bad;
}
// re-initialisation matrix: for every ordered pair (A, B) of catalogue solutions the handle is initialised with A and then with B; it must
// then be indistinguishable from a handle that only ever held B (name, dimension, every parameter of B bit for bit, no parameter of A left)
#include <fstream>
#include <map>
#include <sstream>
#include <vector>
template <class S> static std::string snapshot() {
  std::string nm; masa_get_name<S>(&nm); int d = -1; masa_get_dimension<S>(&d); std::string o = nm + ";" + std::to_string(d) + ";";
  fflush(stdout); std::cout.flush(); int pfd[2]; if (pipe(pfd)) return o; int saved = dup(1); dup2(pfd[1], 1); masa_display_param<S>(); std::cout.flush(); fflush(stdout); dup2(saved, 1); close(saved); close(pfd[1]);
  std::string s; char b[65536]; ssize_t n; while ((n = read(pfd[0], b, sizeof b)) > 0) s.append(b, n); close(pfd[0]);
  std::istringstream is(s); std::string l; while (std::getline(is, l)) { size_t p = l.find(" is set to:"); if (p != std::string::npos) { S v = masa_get_param<S>(l.substr(0, p)); char hb[64]; snprintf(hb, sizeof hb, "%La", (LD)v); o += l.substr(0, p) + "=" + hb + ","; } }
  return o;
}
template <class S> static long pairs(const std::vector<std::string>& names, const char* scal) {
  long bad = 0; std::map<std::string, std::string> fresh;
  for (auto& b : names) { masa_init<S>("fresh_" + b, b); fresh[b] = snapshot<S>(); }
  for (auto& a : names) for (auto& b : names) { std::string h = "p_" + a; masa_init<S>(h, a); masa_init<S>(h, b); std::string got = snapshot<S>();
    if (got != fresh[b]) { if (bad++ < 8) fprintf(stderr, "BAD <%s> handle initialised with %s and then with %s is not a fresh %s: %.120s ... instead of %.120s ...\n", scal, a.c_str(), b.c_str(), b.c_str(), got.c_str(), fresh[b].c_str()); } }
  return bad;
}
int main(int argc, char** argv) {
  int N = argc > 1 ? atoi(argv[1]) : 300;
  if (argc > 2) {  // c12_many <N> <file with catalogue names>: the re-initialisation matrix
    std::vector<std::string> names; std::ifstream f(argv[2]); std::string l; while (std::getline(f, l)) if (!l.empty() && l != "masa_test_function" && l != "masa_uninit") names.push_back(l);
    { int dn = open("/dev/null", O_WRONLY); int saved = dup(1); dup2(dn, 1); close(dn); long bad = pairs<double>(names, "double") + pairs<LD>(names, "long double"); fflush(stdout); dup2(saved, 1); fprintf(stderr, "TOTAL %zu %ld\n", names.size() * names.size() * 2, bad); }
    return 0;
  }
  int dn = open("/dev/null", O_WRONLY); dup2(dn, 1); close(dn);
  long bad = run<double>(N, "double") + run<LD>(N > 2000 ? 2000 : N, "long double");
  fprintf(stderr, "TOTAL %d %ld\n", N, bad);
  return 0;
}
