// Capability extraction (D): which (solution, API overload) pairs the binary under test really provides.
// This TU *includes* the tree's masa_core.cpp so that the anonymous-namespace catalogue builder get_list_mms()
// is reachable; everything else is linked from the tree's objects.  For every catalogue object, the vtable entry of
// the base-class virtual an API template must forward to (spec/api_rule.tsv) is compared with masa_uninit's,
// which overrides nothing: different => the class provides that overload.
#define VERIF_WITH_SLOTS 1
#include "masa_core.cpp"
#include "api_gen.hpp"
#include <cstdio>
static void* vt_entry(MASA::manufactured_solution<double>* o, long s) { void** vt = *(void***)o; return vt[s]; }
int main(int argc, char** argv) {
  std::cout.setstate(std::ios::failbit);
  api_fill_slots();
  std::vector<MASA::manufactured_solution<double>*> anim;
  get_list_mms<double>(anim);
  MASA::manufactured_solution<double>* un = 0;
  for (auto* o : anim) { std::string n; o->return_name(&n); if (n == "masa_uninit") un = o; }
  if (!un) { fprintf(stderr, "e3_caps: masa_uninit not in catalogue\n"); return 2; }
  FILE* f = fopen(argv[1], "w");
  for (auto* o : anim) {
    std::string n; o->return_name(&n); int dim = -1; o->return_dim(&dim);
    fprintf(f, "sol %s %d %d %zu\n", n.c_str(), dim, (int)o->varmap.size(), o->vecmap.size());
    for (int k = 0; k < API_N; k++) {
      if (API_TABLE[k].slot < 0) { fprintf(f, "noslot %s %s\n", API_TABLE[k].name, API_TABLE[k].sig); continue; }
      fprintf(f, "cap %s %s %s %d\n", n.c_str(), API_TABLE[k].name, API_TABLE[k].sig[0] ? API_TABLE[k].sig : "-", vt_entry(o, API_TABLE[k].slot) != vt_entry(un, API_TABLE[k].slot));
    }
  }
  fclose(f);
  return 0;
}
