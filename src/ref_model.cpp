// C04 reference: laplace_2d (f = Laplacian(phi)) and burgers_equation (inviscid transient residual of the
// documented Roy-type velocity fields; two-argument exact fields = t-independent part).
#include "e1.hpp"

namespace {
bool laplace_ref(const Params& P, const Pt& p, std::vector<Expect>& out) {
  RJ X = RJ::var(p.c[0], 0), Y = RJ::var(p.c[1], 1);
  RJ ax = P("Lx") * P("Lx") - X * X, ay = P("Ly") * P("Ly") - Y * Y;
  RJ phi = ay * ay + ax * ax;
  out.push_back(mk("C04", "exact_phi", "SS", p, V_XY, val(phi)));
  out.push_back(mk("C04", "source_f", "SS", p, V_XY, d2(phi, 0, 0) + d2(phi, 1, 1)));
  return true;
}

bool burgers_ref(const Params& P, const Pt& p, std::vector<Expect>& out) {
  RJ X = RJ::var(p.c[0], 0), Y = RJ::var(p.c[1], 1), T = RJ::var(p.c[3], 3);
  Q L = P("L");
  auto ph = [&](const char* a, const RJ& c) { return P(a) * PIq * c / L; };
  RJ us = RJ(P("u_0")) + P("u_x") * sin(ph("a_ux", X)) + P("u_y") * cos(ph("a_uy", Y));
  RJ vs = RJ(P("v_0")) + P("v_x") * cos(ph("a_vx", X)) + P("v_y") * sin(ph("a_vy", Y));
  RJ u = us + P("u_t") * cos(ph("a_ut", T)), v = vs + P("v_t") * sin(ph("a_vt", T));
  out.push_back(mk("C04", "exact_u", "SSS", p, V_XYT, val(u)));
  out.push_back(mk("C04", "exact_v", "SSS", p, V_XYT, val(v)));
  out.push_back(mk("C04", "exact_u", "SS", p, V_XY, val(us)));
  out.push_back(mk("C04", "exact_v", "SS", p, V_XY, val(vs)));
  out.push_back(mk("C04", "source_u", "SSS", p, V_XYT, d1(u, 3) + d1(u * u, 0) + d1(u * v, 1)));
  out.push_back(mk("C04", "source_v", "SSS", p, V_XYT, d1(v, 3) + d1(u * v, 0) + d1(v * v, 1)));
  return true;
}

struct Reg {
  Reg() {
    {
      System s; s.name = "laplace_2d"; s.prop = "C04"; s.dim = 2;
      s.points = [](int tier) { std::vector<Pt> pts = grid({0, 1}, tier ? 3 : 2, GENERIC_VALS); pts.push_back(far_point()); pts.push_back(Pt(0, 0, 0, 0, true)); return pts; };
      s.reference = laplace_ref; s.max_dev_quick = 2; s.max_dev_thorough = 2;
      e1_systems().push_back(s);
    }
    {
      System s; s.name = "burgers_equation"; s.prop = "C04"; s.dim = 2;
      s.points = [](int tier) { std::vector<Pt> pts = grid({0, 1, 3}, tier ? 3 : 2, GENERIC_VALS); pts.push_back(far_point()); pts.push_back(Pt(0, 0, 0, 0, true)); return pts; };
      s.allow = [](const std::string& n, LD v) { return !(n == "L" && v == 0); };
      s.reference = burgers_ref; s.max_dev_quick = 2; s.max_dev_thorough = 3;
      e1_systems().push_back(s);
    }
  }
} reg;
}  // namespace
