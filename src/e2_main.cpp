// E2: explicit-state explorer over API histories.  The process itself is the state snapshot: a pristine parent
// (which never calls the library) forks one child per frontier state; the child replays the shortest history reaching
// the state on the real library *and* on the reference model, asserts that the canonical observation equals the one
// recorded at discovery (replay determinism), then forks one grandchild per operation of the alphabet.  Each
// grandchild executes the operation on the real library, compares return value / stdout / the complete observation
// with the model, and reports the canonical key of the successor.  BFS runs to a fixpoint (closed state space).
#include "api_gen.hpp"
#include <masa.h>
#include <algorithm>
#include <chrono>
#include <cmath>
#include <cstdio>
#include <cstring>
#include <fcntl.h>
#include <functional>
#include <iostream>
#include <limits>
#include <map>
#include <set>
#include <sstream>
#include <string>
#include <sys/wait.h>
#include <unistd.h>
#include <vector>
using namespace MASA;
typedef long double LD;
namespace MASA { int masa_map(std::string*); }

// ------------------------------------------------------------------------------------------------ utilities
static std::string g_cap;
static double now() { return std::chrono::duration<double>(std::chrono::steady_clock::now().time_since_epoch()).count(); }
template <class F> static std::string capture(F f) {
  std::cout.flush(); fflush(stdout); int saved = dup(1); int fd = open(g_cap.c_str(), O_RDWR | O_CREAT | O_TRUNC, 0600);
  dup2(fd, 1);
  try { f(); } catch (...) { std::cout.flush(); fflush(stdout); dup2(saved, 1); close(saved); close(fd); throw; }
  std::cout.flush(); fflush(stdout); dup2(saved, 1); close(saved);
  off_t n = lseek(fd, 0, SEEK_END); lseek(fd, 0, SEEK_SET); std::string s(n, '\0'); if (n > 0) { ssize_t r = read(fd, &s[0], n); (void)r; } close(fd); return s;
}
static std::string read_file(const std::string& p) { std::string s; FILE* f = fopen(p.c_str(), "r"); if (!f) return s; char b[4096]; size_t n; while ((n = fread(b, 1, sizeof b, f)) > 0) s.append(b, n); fclose(f); return s; }
static std::string esc(const std::string& s) { std::string r; for (unsigned char c : s) { if (c == '\t') r += "\\t"; else if (c == '\n') r += "\\n"; else if (c == '\\') r += "\\\\"; else if (c < 32) r += "?"; else r.push_back(c); } return r; }
static std::string hex(double v) { char b[40]; snprintf(b, sizeof b, "%a", v); return b; }
static std::string hexl(LD v) { char b[60]; snprintf(b, sizeof b, "%La", v); return b; }
static uint64_t fnv(const std::string& s, uint64_t h) { for (unsigned char c : s) { h ^= c; h *= 1099511628211ULL; } return h; }
static std::string hash128(const std::string& s) { char b[40]; snprintf(b, sizeof b, "%016llx%016llx", (unsigned long long)fnv(s, 1469598103934665603ULL), (unsigned long long)fnv(s, 0x9e3779b97f4a7c15ULL)); return b; }
static const double MARKER = -12345.67;

// ------------------------------------------------------------------------------------------------ model
struct Sol { std::string name; int dim = 0; std::vector<std::string> pn; std::map<std::string, LD> p; std::vector<std::string> vn; std::map<std::string, std::vector<LD>> v; };
struct Reg { std::map<std::string, Sol> h; bool has_sel = false; std::string sel; };
struct Model { Reg r[2]; };
static std::map<std::string, Sol> DEFAULTS[2];  // per scalar: solution name -> fresh instance (captured from the library right after masa_init)
static std::set<std::string> CATALOGUE;
static std::string normal_form(const std::string& s) { std::string r; for (unsigned char c : s) { if (c == '-' || c == ' ') continue; r.push_back((char)std::tolower(c)); } return r; }

// ------------------------------------------------------------------------------------------------ operations
enum OpT { INIT, SELECT, SET, GET, PURGE, INITPARAM, SANITY, DISPLAY, SETVEC, GETVEC, EVAL, LIST, GETNAME, GETDIM, DISPLAYVEC, CBFAIL };
struct Op {
  OpT t; int reg = 0; bool c = false;  // c: through the extern "C" interface (double registry only)
  std::string h, s, p; LD v = 0; int n = 0; std::string fn, sig; int tuple = 0;
  int rel = 0; std::vector<LD> vals;  // SETVEC relative to the vector currently stored: 1 append one entry, 2 drop the last entry, 3 the same contents again (vals filled by resolve())
  std::string str() const {
    char b[256]; const char* R = reg ? "ld" : "d"; const char* V = c ? "C:" : "";
    switch (t) {
      case INIT: snprintf(b, sizeof b, "%sinit<%s>(%s,%s)", V, R, h.c_str(), s.c_str()); break;
      case SELECT: snprintf(b, sizeof b, "%sselect<%s>(%s)", V, R, h.c_str()); break;
      case SET: snprintf(b, sizeof b, "%sset_param<%s>(%s,%.10Lg)", V, R, p.c_str(), v); break;
      case GET: snprintf(b, sizeof b, "%sget_param<%s>(%s)", V, R, p.c_str()); break;
      case PURGE: snprintf(b, sizeof b, "%spurge<%s>()", V, R); break;
      case INITPARAM: snprintf(b, sizeof b, "%sinit_param<%s>()", V, R); break;
      case SANITY: snprintf(b, sizeof b, "%ssanity_check<%s>()", V, R); break;
      case DISPLAY: snprintf(b, sizeof b, "%sdisplay_param<%s>()", V, R); break;
      case DISPLAYVEC: snprintf(b, sizeof b, "%sdisplay_vec<%s>()", V, R); break;
      case SETVEC: if (rel) snprintf(b, sizeof b, "%sset_vec<%s>(%s,%s)", V, R, p.c_str(), rel == 1 ? "current+one" : rel == 2 ? "current-last" : rel == 6 ? "same-length-other-contents" : rel == 4 ? "{+0,1.5,2.5}" : rel == 5 ? "{-0,1.5,2.5}" : "current"); else snprintf(b, sizeof b, "%sset_vec<%s>(%s,len=%d)", V, R, p.c_str(), n); break;
      case GETVEC: snprintf(b, sizeof b, "%sget_vec<%s>(%s)", V, R, p.c_str()); break;
      case EVAL: snprintf(b, sizeof b, "%seval_%s/%s<%s>#%d", V, fn.c_str(), sig.c_str(), R, tuple); break;
      case LIST: snprintf(b, sizeof b, "%slist_mms<%s>()", V, R); break;
      case GETNAME: snprintf(b, sizeof b, "%sget_name<%s>()", V, R); break;
      case GETDIM: snprintf(b, sizeof b, "%sget_dimension<%s>()", V, R); break;
      case CBFAIL: snprintf(b, sizeof b, "%spass_func<%s>(callback that selects an unknown handle)", V, R); break;
    }
    return b;
  }
};
struct Outcome { bool fatal = false; int code = 0; std::string ret; std::string out; };

static LD vec_value(int n, int i) { return (LD)(i + 1) * 0.5L + (LD)n; }
static ApiArgs args_tuple(int which) {
  ApiArgs A; const LD t[3][4] = {{0.3125L, 0.4375L, 0.28125L, 0.125L}, {1.078125L, 0.90625L, 1.21875L, 0.78125L}, {0.6875L, 0.15625L, 0.53125L, 0.40625L}};
  for (int k = 0; k < 4; k++) A.s[k] = t[which % 3][k]; A.i = 1 + which % 2; A.fd = [](double T) { return 2.75 + 0.25 * T; }; A.fl = [](LD T) { return 2.75L + 0.25L * T; }; return A;
}
extern "C" {  // C entry points that masa.h may not declare
double masa_eval_4d_source_rho(double, double, double, double);
}
static bool c_eval(const std::string& fn, const std::string& sig, const ApiArgs& A, double& r);

// ---- real library
template <class S> static Outcome real_op_t(const Op& o) {
  Outcome R; char b[128];
  auto body = [&] {
    switch (o.t) {
      case INIT: R.ret = std::to_string(masa_init<S>(o.h, o.s)); break;
      case SELECT: R.ret = std::to_string(masa_select_mms<S>(o.h)); break;
      case SET: masa_set_param<S>(o.p, (S)o.v); R.ret = ""; break;
      case GET: R.ret = hexl((LD)masa_get_param<S>(o.p)); break;
      case PURGE: R.ret = std::to_string(masa_purge_default_param<S>()); break;
      case INITPARAM: R.ret = std::to_string(masa_init_param<S>()); break;
      case SANITY: R.ret = std::to_string(masa_sanity_check<S>()); break;
      case DISPLAY: R.ret = std::to_string(masa_display_param<S>()); break;
      case DISPLAYVEC: R.ret = std::to_string(masa_display_vec<S>()); break;
      case SETVEC: { std::vector<S> v(o.n); for (int i = 0; i < o.n; i++) v[i] = (S)vec_value(o.n, i); if (o.rel) { v.clear(); for (LD x : o.vals) v.push_back((S)x); } std::vector<S> passed = v; masa_set_vec<S>(o.p, v); R.ret = (v == passed) ? "" : "CALLER-VECTOR-MODIFIED-BY-set_vec"; break; }
      case GETVEC: { std::vector<S> v; v.push_back((S)-777); int st = masa_get_vec<S>(o.p, v); R.ret = std::to_string(st) + ":"; if (st == 0) for (S x : v) R.ret += hexl((LD)x) + ","; else R.ret += (v.size() == 1 && v[0] == (S)-777) ? "untouched" : "touched"; break; }
      case EVAL: { const ApiEntry* e = api_find(o.fn.c_str(), o.sig.c_str()); ApiArgs A = args_tuple(o.tuple); R.ret = e ? hexl(sizeof(S) == sizeof(double) ? (LD)e->cd(A) : e->cl(A)) : "noapi"; break; }
      case LIST: R.ret = std::to_string(masa_list_mms<S>()); break;
      case GETNAME: { std::string n = "#untouched#"; int st = masa_get_name<S>(&n); R.ret = std::to_string(st) + ":" + n; break; }
      case GETDIM: { int d = -77; int st = masa_get_dimension<S>(&d); R.ret = std::to_string(st) + ":" + std::to_string(d); break; }
      case CBFAIL: { S r = pass_func<S>([](S x) -> S { masa_select_mms<S>("no-such-handle-in-callback"); return x; }, (S)1); R.ret = hexl((LD)r); break; }
    }
  };
  (void)b;
#ifdef MASA_EXCEPTIONS
  try { R.out = capture(body); } catch (int e) { R.fatal = true; R.code = e; R.out = read_file(g_cap); } catch (...) { R.fatal = true; R.code = -999; R.out = read_file(g_cap); }
#else
  R.out = capture(body);
#endif
  return R;
}
static Outcome real_op_c(const Op& o) {  // through the extern "C" interface
  Outcome R;
  // string arguments travel in two fixed buffers that every call re-uses (what a C or Fortran driver with one name variable does): the
  // library must read the text it is given now, never remember the address
  static char B1[600], B2[600];
  auto s1 = [&](const std::string& t) { memset(B1, 0, sizeof B1); strncpy(B1, t.c_str(), sizeof B1 - 1); return (const char*)B1; };
  auto s2 = [&](const std::string& t) { memset(B2, 0, sizeof B2); strncpy(B2, t.c_str(), sizeof B2 - 1); return (const char*)B2; };
  auto body = [&] {
    switch (o.t) {
      case INIT: R.ret = std::to_string(masa_init(s1(o.h), s2(o.s))); break;
      case SELECT: R.ret = std::to_string(masa_select_mms(s1(o.h))); break;
      case SET: masa_set_param(s1(o.p), (double)o.v); R.ret = ""; break;
      case GET: R.ret = hexl((LD)masa_get_param(s1(o.p))); break;
      case PURGE: R.ret = std::to_string(masa_purge_default_param()); break;
      case INITPARAM: R.ret = std::to_string(masa_init_param()); break;
      case SANITY: R.ret = std::to_string(masa_sanity_check()); break;
      case DISPLAY: R.ret = std::to_string(masa_display_param()); break;
      case DISPLAYVEC: R.ret = std::to_string(masa_display_array()); break;
      case SETVEC: { std::vector<double> v(o.n + 1); for (int i = 0; i < o.n; i++) v[i] = (double)vec_value(o.n, i); int n = o.n; if (o.rel) { v.assign(o.vals.size() + 1, 0.0); for (size_t i = 0; i < o.vals.size(); i++) v[i] = (double)o.vals[i]; n = o.vals.size(); } masa_set_array(s1(o.p), &n, v.data()); R.ret = ""; break; }
      case GETVEC: { double arr[512]; for (double& x : arr) x = -777; int n = -5; int st = masa_get_array(s1(o.p), &n, arr); R.ret = std::to_string(st) + ":";
        if (st == 0) { for (int i = 0; i < n && i < 512; i++) R.ret += hexl((LD)arr[i]) + ","; if (n >= 0 && n < 512 && arr[n] != -777) R.ret += "OVERRUN"; } else R.ret += (arr[0] == -777) ? "untouched" : "touched"; break; }
      case EVAL: { ApiArgs A = args_tuple(o.tuple); double r; R.ret = c_eval(o.fn, o.sig, A, r) ? hexl((LD)r) : "noapi"; break; }
      case LIST: R.ret = std::to_string(masa_list_mms()); break;
      case GETNAME: { char buf[256]; memset(buf, '#', sizeof buf); strcpy(buf, "#untouched#"); int st = masa_get_name(buf); buf[255] = 0; R.ret = std::to_string(st) + ":" + buf; break; }
      case GETDIM: { int d = -77; int st = masa_get_dimension(&d); R.ret = std::to_string(st) + ":" + std::to_string(d); break; }
      case CBFAIL: break;
    }
  };
#ifdef MASA_EXCEPTIONS
  try { R.out = capture(body); } catch (int e) { R.fatal = true; R.code = e; R.out = read_file(g_cap); } catch (...) { R.fatal = true; R.code = -999; R.out = read_file(g_cap); }
#else
  R.out = capture(body);
#endif
  return R;
}
static Outcome real_op(const Op& o) { if (o.c) return real_op_c(o); return o.reg ? real_op_t<LD>(o) : real_op_t<double>(o); }

// ---- model
static Outcome model_op(const Op& o, Model& M, std::string& note) {
  Outcome R; Reg& G = M.r[o.reg];
  auto need_sel = [&]() { if (!G.has_sel) { R.fatal = true; R.code = 1; return false; } return true; };
  switch (o.t) {
    case INIT: { std::string nf = normal_form(o.s); if (!CATALOGUE.count(nf) || !DEFAULTS[o.reg].count(nf)) { if (CATALOGUE.count(nf)) note = "solution outside the model alphabet"; R.fatal = true; R.code = 1; break; }
      G.h[o.h] = DEFAULTS[o.reg][nf]; G.has_sel = true; G.sel = o.h; R.ret = "0"; break; }
    case SELECT: if (!G.h.count(o.h)) { R.fatal = true; R.code = 1; break; } G.has_sel = true; G.sel = o.h; R.ret = "0"; break;
    case SET: if (!need_sel()) break; { Sol& s = G.h[G.sel]; if (s.p.count(o.p)) s.p[o.p] = o.reg ? o.v : (LD)(double)o.v; R.ret = ""; } break;
    case GET: if (!need_sel()) break; { Sol& s = G.h[G.sel]; R.ret = hexl(s.p.count(o.p) ? s.p[o.p] : (LD)-20); } break;
    case PURGE: if (!need_sel()) break; { Sol& s = G.h[G.sel]; for (auto& kv : s.p) kv.second = o.reg ? (LD)MARKER : (LD)(double)MARKER; R.ret = "0"; } break;
    case INITPARAM: if (!need_sel()) break; { Sol& s = G.h[G.sel]; const Sol& d = DEFAULTS[o.reg][s.name]; s.p = d.p; s.v = d.v; R.ret = (s.name == "masa_test_function") ? "*" : "0"; } break;
    case SANITY: if (!need_sel()) break; if (G.h[G.sel].name == "masa_test_function") { R.fatal = true; R.code = 1; break; } { Sol& s = G.h[G.sel]; bool bad = false; for (auto& kv : s.p) if (std::fabs((double)((kv.second - (LD)MARKER) / (LD)MARKER)) < 1e-10) bad = true; for (auto& kv : s.v) if (kv.second.empty()) bad = true; R.ret = bad ? "1" : "0"; } break;
    case DISPLAY: case DISPLAYVEC: if (!need_sel()) break; R.ret = "0"; break;
    case SETVEC: if (!need_sel()) break; { Sol& s = G.h[G.sel]; if (s.v.count(o.p)) { std::vector<LD> v(o.n); for (int i = 0; i < o.n; i++) v[i] = o.reg ? vec_value(o.n, i) : (LD)(double)vec_value(o.n, i); if (o.rel) { v.clear(); for (LD x : o.vals) v.push_back(o.reg ? x : (LD)(double)x); } s.v[o.p] = v; } R.ret = ""; } break;
    case GETVEC: if (!need_sel()) break; { Sol& s = G.h[G.sel]; if (s.v.count(o.p)) { R.ret = "0:"; for (LD x : s.v[o.p]) R.ret += hexl(x) + ","; } else R.ret = "1:untouched"; } break;
    case EVAL: if (!need_sel()) break; R.ret = "*"; break;  // value checked differentially by the pristine parent
    case LIST: R.ret = "0"; break;
    case GETNAME: if (!need_sel()) break; R.ret = "0:" + G.h[G.sel].name; break;
    case GETDIM: if (!need_sel()) break; R.ret = "0:" + std::to_string(G.h[G.sel].dim); break;
    case CBFAIL: R.fatal = true; R.code = 1; break;  // no selection: fatal at once; with a selection: the callback's select of an unknown handle is fatal
  }
  return R;
}

// ---- observation of the complete visible state (real library) and its prediction from the model
template <class S> static void observe_reg(std::string& o, bool has_sel_hint) {
  std::string list = capture([] { masa_list_mms<S>(); });
  std::vector<std::string> handles; std::istringstream is(list); std::string l;
  while (std::getline(is, l)) { if (l.find("Number of initialized solutions") == 0) { o += "n=" + l.substr(l.find(':') + 1) + ";"; continue; } size_t p = l.rfind(" : "); if (p != std::string::npos) { handles.push_back(l.substr(0, p)); o += "[" + l.substr(0, p) + "=" + l.substr(p + 3) + "]"; } }
  if (handles.empty() || !has_sel_hint) { o += "nosel;"; return; }
  // which handle is selected cannot be asked directly: fingerprint = name + all parameters of the selected solution, then
  // identify it by a probe write (set a fresh value through the selection, find the handle that shows it, restore)
  std::string selname; masa_get_name<S>(&selname); int dim = -1; masa_get_dimension<S>(&dim);
  o += "sel.name=" + selname + ";sel.dim=" + std::to_string(dim) + ";";
  std::vector<std::string> pn; { std::string out = capture([] { masa_display_param<S>(); }); std::istringstream ps(out); std::string line; while (std::getline(ps, line)) { size_t p = line.find(" is set to:"); if (p != std::string::npos) pn.push_back(line.substr(0, p)); } }
  std::string selh = "?";
  if (!pn.empty()) {
    S old = masa_get_param<S>(pn[0]); S probe = (S)424242.125; masa_set_param<S>(pn[0], probe);
    for (auto& h : handles) { capture([&] { masa_select_mms<S>(h); }); std::vector<std::string> hp; std::string out = capture([] { masa_display_param<S>(); }); if (out.find(pn[0] + " is set to:") == std::string::npos) continue; if (masa_get_param<S>(pn[0]) == probe) { if (selh == "?") selh = h; else selh += "+" + h; } }
    // restore: re-select the probed handle(s) and undo
    std::string first = selh.substr(0, selh.find('+'));
    if (selh != "?") { capture([&] { masa_select_mms<S>(first); }); masa_set_param<S>(pn[0], old); }
  } else selh = "(no scalar parameters)";
  o += "sel=" + selh + ";";
  std::string back = selh.substr(0, selh.find('+'));
  for (auto& h : handles) {
    capture([&] { masa_select_mms<S>(h); });
    std::string nm; masa_get_name<S>(&nm); int d = -1; masa_get_dimension<S>(&d); o += "{" + h + ":" + nm + ":" + std::to_string(d) + ":";
    std::string out = capture([] { masa_display_param<S>(); }); std::istringstream ps(out); std::string line;
    while (std::getline(ps, line)) { size_t p = line.find(" is set to:"); if (p != std::string::npos) { std::string n = line.substr(0, p); o += n + "=" + hexl((LD)masa_get_param<S>(n)) + ","; } }
    std::string vo = capture([] { masa_display_vec<S>(); }); std::istringstream vs(vo);
    while (std::getline(vs, line)) { size_t p = line.find(" is size: "); if (p != std::string::npos) { std::string n = line.substr(0, p); std::vector<S> v; int st = masa_get_vec<S>(n, v); o += n + "[" + std::to_string(st) + "]="; for (S x : v) o += hexl((LD)x) + ","; o += ";"; } }
    // the self-test fixture is built so that sanity_check is a fatal error: never called on it by the observer
    if (nm == "masa_test_function") o += "sanity=fixture}";
    else { int sc = -9; capture([&] { sc = masa_sanity_check<S>(); }); o += "sanity=" + std::to_string(sc) + "}"; }
  }
  if (selh != "?" && selh[0] != '(') capture([&] { masa_select_mms<S>(back); });
}
static std::string observe_real(const Model& M) { std::string o = "D:"; observe_reg<double>(o, M.r[0].has_sel); o += "|L:"; observe_reg<LD>(o, M.r[1].has_sel);
  // the library reports through std::cout: a call that leaves the stream in a failed state silences every later message of every instance
  if (!std::cout.good()) o += "|STDOUT-STREAM-FAILED(rdstate=" + std::to_string((int)std::cout.rdstate()) + ")";
  return o; }
static void predict_reg(const Reg& G, std::string& o) {
  o += "n= " + std::to_string(G.h.size()) + ";";
  for (auto& kv : G.h) o += "[" + kv.first + "=" + kv.second.name + "]";
  if (G.h.empty() || !G.has_sel) { o += "nosel;"; return; }
  const Sol& s = G.h.at(G.sel);
  o += "sel.name=" + s.name + ";sel.dim=" + std::to_string(s.dim) + ";";
  o += "sel=" + (s.p.empty() ? std::string("(no scalar parameters)") : G.sel) + ";";
  for (auto& kv : G.h) {
    const Sol& t = kv.second; o += "{" + kv.first + ":" + t.name + ":" + std::to_string(t.dim) + ":";
    for (auto& pv : t.p) o += pv.first + "=" + hexl(pv.second) + ",";
    for (auto& vv : t.v) { o += vv.first + "[0]="; for (LD x : vv.second) o += hexl(x) + ","; o += ";"; }
    bool bad = false; for (auto& pv : t.p) if (std::fabs((double)((pv.second - (LD)MARKER) / (LD)MARKER)) < 1e-10) bad = true; for (auto& vv : t.v) if (vv.second.empty()) bad = true;
    o += std::string("sanity=") + (t.name == "masa_test_function" ? "fixture" : bad ? "1" : "0") + "}";
  }
}
static std::string observe_model(const Model& M) { std::string o = "D:"; predict_reg(M.r[0], o); o += "|L:"; predict_reg(M.r[1], o); return o; }
static bool obs_equal(const std::string& real, const std::string& model) {  // '*' in the model matches one token up to the next delimiter
  size_t i = 0, j = 0;
  while (i < real.size() && j < model.size()) { if (model[j] == '*') { while (i < real.size() && real[i] != '}' && real[i] != ';' && real[i] != ',') i++; j++; continue; } if (real[i] != model[j]) return false; i++; j++; }
  return i == real.size() && j == model.size();
}

// ------------------------------------------------------------------------------------------------ C evaluator table (for C17)
struct CEval { const char* sym; const char* fn; const char* sig; double (*call)(const ApiArgs&); };
#include "c_eval_gen.hpp"
static bool c_eval(const std::string& fn, const std::string& sig, const ApiArgs& A, double& r) { for (auto& e : C_EVALS) if (fn == e.fn && sig == e.sig) { r = e.call(A); return true; } return false; }

// ------------------------------------------------------------------------------------------------ spaces
struct Space { std::string id; std::vector<Op> prefix; std::vector<Op> ops; std::vector<std::string> solutions; int max_depth = 1000; bool key_last = false; };
static Op mk(OpT t, int reg, bool c = false) { Op o; o.t = t; o.reg = reg; o.c = c; return o; }
static Op opInit(int reg, const std::string& h, const std::string& s, bool c = false) { Op o = mk(INIT, reg, c); o.h = h; o.s = s; return o; }
static Op opSel(int reg, const std::string& h, bool c = false) { Op o = mk(SELECT, reg, c); o.h = h; return o; }
static Op opSet(int reg, const std::string& p, LD v, bool c = false) { Op o = mk(SET, reg, c); o.p = p; o.v = v; return o; }
static Op opGet(int reg, const std::string& p, bool c = false) { Op o = mk(GET, reg, c); o.p = p; return o; }
static Op opSetVec(int reg, const std::string& p, int n, bool c = false) { Op o = mk(SETVEC, reg, c); o.p = p; o.n = n; return o; }
static Op opSetVecRel(int reg, const std::string& p, int rel, bool c = false) { Op o = mk(SETVEC, reg, c); o.p = p; o.rel = rel; return o; }
static Op opGetVec(int reg, const std::string& p, bool c = false) { Op o = mk(GETVEC, reg, c); o.p = p; return o; }
static Op opEval(int reg, const std::string& fn, const std::string& sig, int tuple, bool c = false) { Op o = mk(EVAL, reg, c); o.fn = fn; o.sig = sig; o.tuple = tuple; return o; }

static std::map<std::string, std::pair<std::string, std::string>> EVAL_OF = {  // one representative provided evaluator per solution used in spaces
    {"euler_1d", {"source_rho_u", "S"}}, {"heateq_2d_steady_const", {"source_t", "SS"}}, {"euler_3d", {"source_rho_e", "SSS"}}, {"radiation_integrated_intensity", {"source_u", "S"}},
    {"cp_normal", {"posterior_mean", ""}}, {"laplace_2d", {"source_f", "SS"}}, {"masa_test_function", {"source_t", "S"}}};
static std::string g_solution;  // --solution for per-solution spaces
static std::vector<std::string> g_evals;  // --evals fn/sig,fn/sig : evaluators provided by g_solution (from the vtable-derived capability set)
static int g_tier = 0;
static Space make_space(const std::string& id);

// ------------------------------------------------------------------------------------------------ exploration
struct Rec { long parent; int op; std::string hash; bool fatal; std::string summary; };
static std::string g_out;
static FILE* g_log;
static int g_op_timeout = 60;  // seconds; generous: a transition takes milliseconds (ASan: tens of ms)
static void defaults_for(const std::string& sol) {  // in a throw-away child: capture the fresh instance of `sol` in both registries
  for (int reg = 0; reg < 2; reg++) {
    int pfd[2]; if (pipe(pfd)) exit(2); pid_t pid = fork();
    if (pid == 0) {
      close(pfd[0]); std::string o;
      auto run = [&](auto tag) { typedef decltype(tag) S;
        capture([&] { masa_init<S>("z", sol); }); std::string nm; masa_get_name<S>(&nm); int d = -1; masa_get_dimension<S>(&d); o += nm + "\n" + std::to_string(d) + "\n";
        std::string out = capture([] { masa_display_param<S>(); }); std::istringstream ps(out); std::string line;
        while (std::getline(ps, line)) { size_t p = line.find(" is set to:"); if (p != std::string::npos) { std::string n = line.substr(0, p); o += "P\t" + n + "\t" + hexl((LD)masa_get_param<S>(n)) + "\n"; } }
        std::string vo = capture([] { masa_display_vec<S>(); }); std::istringstream vs(vo);
        while (std::getline(vs, line)) { size_t p = line.find(" is size: "); if (p != std::string::npos) { std::string n = line.substr(0, p); std::vector<S> v; masa_get_vec<S>(n, v); o += "V\t" + n; for (S x : v) o += "\t" + hexl((LD)x); o += "\n"; } } };
      if (reg) run((LD)0); else run((double)0);
      ssize_t w = write(pfd[1], o.data(), o.size()); (void)w; _exit(0);
    }
    close(pfd[1]); std::string s; char b[65536]; ssize_t n; while ((n = read(pfd[0], b, sizeof b)) > 0) s.append(b, n); close(pfd[0]); int st; waitpid(pid, &st, 0);
    if (!WIFEXITED(st) || WEXITSTATUS(st) != 0) { fprintf(stderr, "E2 HARNESS ERROR: cannot capture defaults of %s (status %d)\n", sol.c_str(), st); exit(2); }
    Sol S; std::istringstream is(s); std::string line; std::getline(is, S.name); std::getline(is, line); S.dim = atoi(line.c_str());
    while (std::getline(is, line)) { std::vector<std::string> f; std::istringstream ls(line); std::string t; while (std::getline(ls, t, '\t')) f.push_back(t);
      if (f.size() >= 3 && f[0] == "P") { S.pn.push_back(f[1]); S.p[f[1]] = strtold(f[2].c_str(), 0); } else if (f.size() >= 2 && f[0] == "V") { S.vn.push_back(f[1]); std::vector<LD> v; for (size_t k = 2; k < f.size(); k++) v.push_back(strtold(f[k].c_str(), 0)); S.v[f[1]] = v; } }
    DEFAULTS[reg][sol] = S;
  }
}
static void load_catalogue() {
  int pfd[2]; if (pipe(pfd)) exit(2); pid_t pid = fork();
  if (pid == 0) { close(pfd[0]); std::string out = capture([] { masa_printid<double>(); }); ssize_t w = write(pfd[1], out.data(), out.size()); (void)w; _exit(0); }
  close(pfd[1]); std::string s; char b[65536]; ssize_t n; while ((n = read(pfd[0], b, sizeof b)) > 0) s.append(b, n); close(pfd[0]); int st; waitpid(pid, &st, 0);
  std::istringstream is(s); std::string l; bool in = false; while (std::getline(is, l)) { if (l.find("*---") != std::string::npos) { if (in) break; in = true; continue; } if (in && !l.empty()) CATALOGUE.insert(l); }
}

// observation taken in a forked copy, so that the probing calls of the observer (select, set, get ...) leave no trace in the
// process whose history is being replayed: hidden library state that depends on the sequence of API calls stays exactly
// what the history made it
static std::string observe_in_fork(const Model& M) {
  int pfd[2]; if (pipe(pfd)) exit(2); pid_t pid = fork();
  if (pid == 0) { close(pfd[0]); g_cap = g_out + ".cap.obs" + std::to_string(getpid()); std::string o = observe_real(M); ssize_t w = write(pfd[1], o.data(), o.size()); (void)w; unlink(g_cap.c_str()); _exit(0); }
  close(pfd[1]); std::string s; char b[65536]; ssize_t n; while ((n = read(pfd[0], b, sizeof b)) > 0) s.append(b, n); close(pfd[0]); int st; waitpid(pid, &st, 0);
  if (!WIFEXITED(st) || WEXITSTATUS(st) != 0) return "OBSERVER-DIED:" + std::to_string(st);
  return s;
}
// a relative SETVEC takes its contents from the model's current vector of the selected solution (the model is compared with the library after every transition)
static Op resolve(const Op& o, const Model& M) {
  if (o.t != SETVEC || !o.rel) return o;
  Op r = o; r.vals.clear(); const Reg& G = M.r[o.reg];
  size_t dflt = 0;
  if (G.has_sel && G.h.count(G.sel)) { const Sol& s = G.h.at(G.sel); if (s.v.count(o.p)) { r.vals = s.v.at(o.p); if (DEFAULTS[o.reg].count(s.name) && DEFAULTS[o.reg].at(s.name).v.count(o.p)) dflt = DEFAULTS[o.reg].at(s.name).v.at(o.p).size(); } }
  // growth is bounded so that the space stays finite: one entry is appended to / dropped from a vector of length 3 or of the default length
  if (o.rel == 6) { const Reg& G6 = M.r[o.reg]; if (G6.has_sel && G6.h.count(G6.sel) && G6.h.at(G6.sel).v.count(o.p)) { r.vals = G6.h.at(G6.sel).v.at(o.p); for (auto& x : r.vals) x = (x == 1.0L + (LD)r.vals.size()) ? 2.0L + (LD)r.vals.size() : 1.0L + (LD)r.vals.size(); } return r; }  // same length, other contents (two alternating fillings)
  if (o.rel == 4) { r.vals = {0.0L, 1.5L, 2.5L}; return r; }
  if (o.rel == 5) { r.vals = {-0.0L, 1.5L, 2.5L}; return r; }
  if (o.rel == 1) { if (r.vals.size() == 3 || r.vals.size() == dflt) r.vals.push_back(9.75L); } else if (o.rel == 2 && !r.vals.empty() && (r.vals.size() == 3 || r.vals.size() == dflt)) r.vals.pop_back();
  return r;
}
static bool g_key_last = false;  // state identity = observation (+ the last operation, as a proxy for hidden call-order state)
static std::string state_key(const std::string& obs, const Op* last) { return hash128(g_key_last && last ? obs + "|last=" + last->str() : obs); }
// replay step: the operation on library and model only, no observation
static void pure_apply(const Op& o0, Model& M) { Op o = resolve(o0, M); std::string note; Model M2 = M; Outcome e = model_op(o, M2, note); Outcome g = real_op(o); if (!e.fatal && !g.fatal) M = M2; }

// executes `o` in the current process on real library and model; fills violation text; returns successor key hash ("" if fatal)
static std::string step(const Op& o0, Model& M, std::string& viol, bool& fatal, std::string& evalrec) {
  Op o = resolve(o0, M);
  std::string before_real;
#ifdef MASA_EXCEPTIONS
  before_real = observe_in_fork(M);
#endif
  Model M2 = M; std::string note; Outcome exp = model_op(o, M2, note);
  Outcome got = real_op(o);  // in the exit() build a fatal error terminates this process here (observed by the caller through the wait status)
  fatal = got.fatal;
  if (exp.fatal != got.fatal) { viol = "op " + o.str() + ": " + (exp.fatal ? "model expects a fatal error (throw 1) but the call returned normally" : "the call raised a fatal error (code " + std::to_string(got.code) + ") where the model expects success") + "; stdout=" + got.out.substr(0, 200); return ""; }
  if (got.fatal) {
    if (got.code != 1 || got.out.find("MASA FATAL ERROR") == std::string::npos) viol = "op " + o.str() + ": fatal error with code " + std::to_string(got.code) + " / no 'MASA FATAL ERROR' line on stdout";
    std::string after = observe_real(M);
    if (after != before_real && viol.empty()) viol = "op " + o.str() + ": state changed by a failed call; before=" + before_real.substr(0, 300) + " after=" + after.substr(0, 300);
    return state_key(after, 0);
  }
  M = M2;
  if (exp.ret != "*" && exp.ret != got.ret && !(exp.ret.size() && exp.ret.back() == '*' && got.ret.compare(0, exp.ret.size() - 1, exp.ret, 0, exp.ret.size() - 1) == 0)) viol = "op " + o.str() + ": returned '" + got.ret.substr(0, 160) + "', model expects '" + exp.ret.substr(0, 160) + "'";
  if (got.out.find("MASA FATAL ERROR") != std::string::npos && viol.empty()) viol = "op " + o.str() + ": printed MASA FATAL ERROR but continued";
  if (o.t == EVAL) { const Reg& G = M.r[o.reg]; const Sol& s = G.h.at(G.sel); std::string key = s.name + "|" + (o.reg ? "ld" : "d") + "|"; for (auto& kv : s.p) key += kv.first + "=" + hexl(kv.second) + ","; for (auto& kv : s.v) { key += kv.first + "=["; for (LD x : kv.second) key += hexl(x) + ","; key += "]"; } evalrec = key + "\t" + o.fn + "/" + o.sig + "#" + std::to_string(o.tuple) + "\t" + got.ret; }
  std::string real = observe_real(M), model = observe_model(M);
  if (!obs_equal(real, model) && viol.empty()) {
    size_t k = 0; while (k < real.size() && k < model.size() && real[k] == model[k]) k++;
    size_t a = k > 60 ? k - 60 : 0;
    viol = "after " + o.str() + ": observation differs from the reference model at offset " + std::to_string(k) + ": lib ..." + real.substr(a, 160) + "... model ..." + model.substr(a, 160) + "...";
  }
  return state_key(real, &o);
}

struct StateInfo { std::vector<int> hist; std::string hash; };

// ---- all operation sequences up to a depth (no state merging): fork-tree DFS.  The process that calls seq_dfs holds the library state
// reached by `hist`; every operation is tried in a forked child, which recurses.  Hidden library state cannot hide behind an equal
// observation here, because nothing is merged: every history of the alphabet up to the depth is executed and compared with the model.
static long seq_dfs(const Space& SP, const Model& M, std::vector<int>& hist, int depth, FILE* fo, double t_end, bool& timed_out) {
  long nodes = 0;
  for (size_t k = 0; k < SP.ops.size(); k++) {
    if (now() > t_end) { timed_out = true; break; }
    // (1) checker: a forked copy executes the operation with the full comparison (return value, fatal-error protocol, complete
    // observation against the model) and is discarded -- its probing calls leave no trace in the process that carries the history on
    fflush(fo); pid_t chk = fork();
    if (chk == 0) {
      alarm(g_op_timeout * 4); g_cap = g_out + ".cap." + std::to_string(getpid());
      Model M2 = M; std::string viol, evalrec; bool fatal = false; hist.push_back(k);
      step(SP.ops[k], M2, viol, fatal, evalrec);
      if (!viol.empty()) { std::string h; for (int q : hist) h += std::to_string(q) + ","; fprintf(fo, "V\t-2\t%zu\t[history %s] %s\n", k, h.c_str(), esc(viol).c_str()); fflush(fo); }
      unlink(g_cap.c_str()); _exit(0);
    }
    int st; waitpid(chk, &st, 0); nodes++;
    Model M2 = M; std::string note; Op o = resolve(SP.ops[k], M); Outcome exp = model_op(o, M2, note);
    std::string capf = g_out + ".cap." + std::to_string(chk);
    if (!WIFEXITED(st) || WEXITSTATUS(st) != 0) {  // died inside the operation: fine iff the model expects a fatal error (exit status 1 + message)
      std::string out = read_file(capf); unlink(capf.c_str());
      bool exit1 = WIFEXITED(st) && WEXITSTATUS(st) == 1;
      if (!(exp.fatal && exit1 && out.find("MASA FATAL ERROR") != std::string::npos)) { std::string h; for (int q : hist) h += std::to_string(q) + ","; fprintf(fo, "V\t-2\t%zu\t[history %s%zu,] op %s: process ended (wait status %d) %s; stdout=%s\n", k, h.c_str(), k, esc(SP.ops[k].str()).c_str(), st, exp.fatal ? "without the fatal-error protocol" : "where the model expects success", esc(out.substr(0, 200)).c_str()); }
      continue;
    }
#ifdef MASA_EXCEPTIONS
    if (depth <= 1) continue;  // exception build: a caught fatal error is an ordinary step, the history goes on through it
#else
    if (exp.fatal || depth <= 1) continue;  // (an unexpected survival of a fatal operation was reported by the checker)
#endif
    // (2) carrier: a second forked copy executes the operation only (no observation) and explores everything below it
    int pfd[2]; if (pipe(pfd)) _exit(4);
    fflush(fo); pid_t c = fork();
    if (c == 0) {
      close(pfd[0]); g_cap = g_out + ".cap." + std::to_string(getpid());
      Model Mc = M; pure_apply(SP.ops[k], Mc); hist.push_back(k);
      bool to = false; long sub = seq_dfs(SP, Mc, hist, depth - 1, fo, t_end, to); if (to) sub = -sub - 1;
      fflush(fo); ssize_t w = write(pfd[1], &sub, sizeof sub); (void)w; unlink(g_cap.c_str()); _exit(0);
    }
    close(pfd[1]); long sub = 0; ssize_t r = read(pfd[0], &sub, sizeof sub); close(pfd[0]); waitpid(c, &st, 0);
    if (r != (ssize_t)sizeof sub) { std::string h; for (int q : hist) h += std::to_string(q) + ","; fprintf(fo, "V\t-2\t%zu\t[history %s%zu,] the process carrying this history ended abnormally (wait status %d)\n", k, h.c_str(), k, st); continue; }
    if (sub < 0) { timed_out = true; sub = -sub - 1; }
    nodes += sub;
  }
  return nodes;
}

int main(int argc, char** argv) {
  std::string space_id, replay; int jobs = 16; double deadline = 1e9; int seqdepth = 0;
  for (int i = 1; i < argc; i++) { std::string a = argv[i]; auto nx = [&] { return std::string(argv[++i]); };
    if (a == "--space") space_id = nx(); else if (a == "--out") g_out = nx(); else if (a == "--jobs") jobs = atoi(nx().c_str()); else if (a == "--solution") g_solution = nx();
    else if (a == "--tier") g_tier = nx() == "thorough"; else if (a == "--evals") { std::istringstream es(nx()); std::string t; while (std::getline(es, t, ',')) if (!t.empty()) g_evals.push_back(t); } else if (a == "--deadline") deadline = atof(nx().c_str()); else if (a == "--replay") replay = nx(); else if (a == "--seqdepth") seqdepth = atoi(nx().c_str()); }
  g_cap = g_out + ".cap." + std::to_string(getpid());
  Space SP = make_space(space_id); g_key_last = SP.key_last && !getenv("E2_PLAIN_STATE_KEY");
  load_catalogue();
  for (auto& s : SP.solutions) defaults_for(s);
  double t_end = now() + deadline;
  if (!replay.empty()) {  // replay one history (op indices separated by commas; the prefix is implicit) in this very process
    Model M; std::vector<int> h; std::istringstream is(replay); std::string t; while (std::getline(is, t, ',')) if (!t.empty()) h.push_back(atoi(t.c_str()));
    std::vector<Op> seq = SP.prefix; for (int k : h) seq.push_back(SP.ops.at(k));
    std::string viol; for (size_t i = 0; i < seq.size(); i++) { bool fatal; std::string ev; std::string v; step(seq[i], M, v, fatal, ev); printf("%2zu %s%s\n", i, seq[i].str().c_str(), v.empty() ? "" : ("   <-- " + v).c_str()); if (!v.empty()) viol = v; }
    unlink(g_cap.c_str()); return viol.empty() ? 0 : 1;
  }
  g_log = fopen(g_out.c_str(), "w"); if (!g_log) { perror("out"); return 2; }
  for (size_t k = 0; k < SP.ops.size(); k++) fprintf(g_log, "O\t%zu\t%s\n", k, esc(SP.ops[k].str()).c_str());
  for (auto& o : SP.prefix) fprintf(g_log, "P\t%s\n", esc(o.str()).c_str());
  if (seqdepth > 0) {
    // tasks = all prefixes of length min(2, seqdepth); each task replays its prefix (compared step by step) and explores everything below it
    int plen = std::min(2, seqdepth); std::vector<std::vector<int>> tasks; { std::vector<int> cur; std::function<void(int)> gen = [&](int d) { if (d == 0) { tasks.push_back(cur); return; } for (size_t k = 0; k < SP.ops.size(); k++) { cur.push_back(k); gen(d - 1); cur.pop_back(); } }; gen(plen); tasks.push_back({}); }  // the last, empty task covers every sequence of length <= plen with all comparisons
    long nodes = 0; bool timed_out = false; size_t next = 0; int running = 0; std::map<pid_t, size_t> who;
    auto reap = [&](bool block) { int st; pid_t p = waitpid(-1, &st, block ? 0 : WNOHANG); if (p <= 0) return false; running--; size_t ti = who[p]; std::string wf = g_out + ".t" + std::to_string(ti); FILE* fi = fopen(wf.c_str(), "r");
      if (fi) { char* line = 0; size_t cap = 0; ssize_t n; while ((n = getline(&line, &cap, fi)) > 0) { std::string l(line, n); if (l[0] == 'C') { long c = 0; int to = 0; sscanf(l.c_str(), "C\t%ld\t%d", &c, &to); nodes += c; if (to) timed_out = true; } else fputs(l.c_str(), g_log); } free(line); fclose(fi); unlink(wf.c_str()); }
      if (!WIFEXITED(st) || WEXITSTATUS(st) != 0) fprintf(g_log, "V\t-2\t-1\tsequence worker for task %zu ended abnormally (wait status %d)\n", ti, st);
      return true; };
    while (next < tasks.size() || running > 0) {
      while (next < tasks.size() && running < jobs) {
        fflush(g_log); pid_t pid = fork();
        if (pid == 0) {
          std::string wf = g_out + ".t" + std::to_string(next); FILE* fo = fopen(wf.c_str(), "w"); g_cap = g_out + ".cap." + std::to_string(getpid());
          Model M; std::vector<int> hist; long cnt = 0; bool to = false, dead = false;
          for (auto& o : SP.prefix) pure_apply(o, M);
          // the prefix itself: its nodes are counted by the task whose remaining prefix ops are all index 0 (so every node is counted once)
          for (size_t i = 0; i < tasks[next].size() && !dead; i++) {
            int k = tasks[next][i]; Model M2 = M; std::string note; Op o = resolve(SP.ops[k], M); Outcome exp = model_op(o, M2, note);
#ifndef MASA_EXCEPTIONS
            if (exp.fatal) { dead = true; break; }  // a prefix through an expected fatal error has no continuation
#endif
            pure_apply(SP.ops[k], M); hist.push_back(k);  // the comparisons along the prefix are made by the depth-1/2 part of the tree below
          }
          if (tasks[next].empty()) cnt = seq_dfs(SP, M, hist, plen, fo, t_end, to); else if (!dead && seqdepth > plen) cnt = seq_dfs(SP, M, hist, seqdepth - plen, fo, t_end, to);
          fprintf(fo, "C\t%ld\t%d\n", cnt + 1, (int)to); fclose(fo); unlink(g_cap.c_str()); _exit(0);
        }
        who[pid] = next; next++; running++;
      }
      reap(true);
    }
    fprintf(g_log, "Z\t%ld\t%ld\t%d\t%d\t%d\t%d\n", nodes, nodes, seqdepth, (int)!timed_out, (int)timed_out, seqdepth);
    fclose(g_log); return 0;
  }
  std::vector<StateInfo> states; std::map<std::string, long> seen;
  // initial state: the prefix applied in a child to obtain its hash
  {
    int pfd[2]; if (pipe(pfd)) return 2; pid_t pid = fork();
    if (pid == 0) { close(pfd[0]); g_cap = g_out + ".cap.init"; Model M; std::string v; for (auto& o : SP.prefix) { bool f; std::string ev, vv; step(o, M, vv, f, ev); if (!vv.empty()) v = vv; } std::string h = state_key(observe_real(M), SP.prefix.empty() ? 0 : &SP.prefix.back()) + "\t" + esc(v); ssize_t w = write(pfd[1], h.data(), h.size()); (void)w; unlink(g_cap.c_str()); _exit(0); }
    close(pfd[1]); std::string s; char b[8192]; ssize_t n; while ((n = read(pfd[0], b, sizeof b)) > 0) s.append(b, n); close(pfd[0]); int st; waitpid(pid, &st, 0);
    if (!WIFEXITED(st) || WEXITSTATUS(st) != 0 || s.size() < 32) { fprintf(g_log, "V\t-1\t-1\tprefix of space %s terminated the process (status %d)\n", space_id.c_str(), st); fclose(g_log); return 0; }
    std::string h = s.substr(0, 32); std::string v = s.size() > 33 ? s.substr(33) : ""; if (!v.empty()) fprintf(g_log, "V\t-1\t-1\t%s\n", v.c_str());
    states.push_back({{}, h}); seen[h] = 0;
  }
  size_t level_begin = 0; int depth = 0; long transitions = 0; bool timed_out = false;
  while (level_begin < states.size() && depth < SP.max_depth && !timed_out) {
    size_t level_end = states.size(); int W = std::max<int>(1, std::min<size_t>(jobs, level_end - level_begin));
    std::vector<pid_t> pids; fflush(g_log);
    for (int w = 0; w < W; w++) {
      pid_t pid = fork();
      if (pid == 0) {  // worker: owns states level_begin + w, + W, ...
        std::string wf = g_out + ".w" + std::to_string(w); FILE* fo = fopen(wf.c_str(), "w");
        for (size_t si = level_begin + w; si < level_end; si += W) {
          if (now() > t_end) { fprintf(fo, "X\t%zu\n", si); break; }
          fflush(fo);
          pid_t c = fork();
          if (c == 0) {  // child: replay the history of state si
            alarm(g_op_timeout * 4);
            g_cap = g_out + ".cap." + std::to_string(getpid());
            Model M; std::string v; bool f; std::string ev;
            for (auto& o : SP.prefix) pure_apply(o, M);
            for (int k : states[si].hist) pure_apply(SP.ops[k], M);
            const Op* lastop = states[si].hist.empty() ? (SP.prefix.empty() ? 0 : &SP.prefix.back()) : &SP.ops[states[si].hist.back()];
            std::string h = state_key(observe_in_fork(M), lastop);
            alarm(0);
            if (h != states[si].hash) { fprintf(fo, "H\t%zu\treplay of the shortest history does not reproduce the recorded observation\n", si); fflush(fo); unlink(g_cap.c_str()); _exit(3); }
            for (size_t k = 0; k < SP.ops.size(); k++) {
              fflush(fo); int pfd[2]; if (pipe(pfd)) _exit(4);
              pid_t g = fork();
              if (g == 0) {  // grandchild: one operation (watchdog: a hang is reported as termination by SIGALRM)
                alarm(g_op_timeout);
                close(pfd[0]); g_cap = g_out + ".cap." + std::to_string(getpid());
                // a fatal error in the exit() build ends this process inside step(): announce the attempt first
                std::string viol, evalrec; bool fatal = false; Model M2 = M;
                std::string hs = step(SP.ops[k], M2, viol, fatal, evalrec);
                if (fatal) hs = states[si].hash;  // a failed call is a self loop (its observation was compared with the one before the call inside step)
                std::string msg = hs + "\t" + (fatal ? "1" : "0") + "\t" + esc(viol) + "\t" + esc(evalrec);
                ssize_t wr = write(pfd[1], msg.data(), msg.size()); (void)wr; close(pfd[1]); unlink(g_cap.c_str());
#ifdef E2_NORMAL_EXIT
                exit(0);  // run static destructors / leak check
#else
                _exit(0);
#endif
              }
              close(pfd[1]); std::string s; char b[65536]; ssize_t n; while ((n = read(pfd[0], b, sizeof b)) > 0) s.append(b, n); close(pfd[0]); int st; waitpid(g, &st, 0);
              std::string capf = g_out + ".cap." + std::to_string(g);
              if (s.empty()) {  // the grandchild died inside the operation
                std::string out = read_file(capf); unlink(capf.c_str());
                Model M2 = M; std::string note; Outcome exp = model_op(SP.ops[k], M2, note);
                bool exit1 = WIFEXITED(st) && WEXITSTATUS(st) == 1;
                if (exp.fatal && exit1 && out.find("MASA FATAL ERROR") != std::string::npos) fprintf(fo, "S\t%zu\t%zu\t%s\t1\n", si, k, states[si].hash.c_str());  // self loop: process gone, state by definition unchanged
                else if (exp.fatal) fprintf(fo, "V\t%zu\t%zu\top %s: expected 'MASA FATAL ERROR' and exit status 1, got wait status %d, stdout=%s\n", si, k, esc(SP.ops[k].str()).c_str(), st, esc(out.substr(0, 200)).c_str());
                else fprintf(fo, "V\t%zu\t%zu\top %s: the process terminated (wait status %d%s) where the model expects success; stdout=%s\n", si, k, esc(SP.ops[k].str()).c_str(), st, WIFSIGNALED(st) ? ", signal" : "", esc(out.substr(0, 300)).c_str());
                continue;
              }
              std::vector<std::string> f; { size_t p0 = 0; for (int q = 0; q < 3; q++) { size_t p1 = s.find('\t', p0); f.push_back(s.substr(p0, p1 - p0)); p0 = p1 + 1; } f.push_back(s.substr(p0)); }
              if (!WIFEXITED(st) || WEXITSTATUS(st) != 0) fprintf(fo, "V\t%zu\t%zu\top %s: process ended abnormally after the operation (wait status %d): %s\n", si, k, esc(SP.ops[k].str()).c_str(), st, esc(read_file(g_out + ".san." + std::to_string(g)).substr(0, 600)).c_str());
              if (!f[2].empty()) fprintf(fo, "V\t%zu\t%zu\t%s\n", si, k, f[2].c_str());
              if (!f[0].empty()) fprintf(fo, "S\t%zu\t%zu\t%s\t%s\n", si, k, f[0].c_str(), f[1].c_str());
              if (!f[3].empty()) fprintf(fo, "E\t%zu\t%zu\t%s\n", si, k, f[3].c_str());
            }
            fflush(fo); unlink(g_cap.c_str()); _exit(0);
          }
          int st; waitpid(c, &st, 0);
          if (!WIFEXITED(st) || (WEXITSTATUS(st) != 0 && WEXITSTATUS(st) != 3)) fprintf(fo, "V\t%zu\t-1\treplaying the history of this state terminated the process (wait status %d)\n", si, st);
        }
        fclose(fo); _exit(0);
      }
      pids.push_back(pid);
    }
    for (pid_t p : pids) { int st; waitpid(p, &st, 0); }
    for (int w = 0; w < W; w++) {
      std::string wf = g_out + ".w" + std::to_string(w); FILE* fi = fopen(wf.c_str(), "r"); if (!fi) continue; char* line = 0; size_t cap = 0; ssize_t n;
      while ((n = getline(&line, &cap, fi)) > 0) {
        std::string l(line, n); if (!l.empty() && l.back() == '\n') l.pop_back();
        if (l[0] == 'S') { char hs[64]; long si, k; int fat; if (sscanf(l.c_str(), "S\t%ld\t%ld\t%63s\t%d", &si, &k, hs, &fat) == 4) { transitions++; if (!seen.count(hs)) { seen[hs] = states.size(); StateInfo ns; ns.hist = states[si].hist; ns.hist.push_back(k); ns.hash = hs; states.push_back(ns); } fprintf(g_log, "T\t%ld\t%ld\t%ld\t%d\n", si, k, seen[hs], fat); } }
        else if (l[0] == 'X') timed_out = true;
        else fprintf(g_log, "%s\n", l.c_str());
      }
      free(line); fclose(fi); unlink(wf.c_str());
    }
    level_begin = level_end; depth++;
  }
  for (size_t i = 0; i < states.size(); i++) { std::string h; for (int k : states[i].hist) h += std::to_string(k) + ","; fprintf(g_log, "N\t%zu\t%s\n", i, h.c_str()); }
  fprintf(g_log, "Z\t%zu\t%ld\t%d\t%d\t%d\t%d\n", states.size(), transitions, depth, (int)(level_begin >= states.size()), (int)timed_out, SP.max_depth);
  fclose(g_log);
  return 0;
}

// ------------------------------------------------------------------------------------------------ space definitions
static Space make_space(const std::string& id) {
  Space S; S.id = id;
  if (id == "c12" || id == "c12x" || id == "c16") {
    // two handles x {euler_1d, heateq_2d_steady_const} x two registries; one parameter per solution with two values
    S.solutions = {"euler_1d", "heateq_2d_steady_const"};
    int regs = (g_tier || id == "c16") ? 2 : 2;
    for (int r = 0; r < regs; r++) {
      bool full = g_tier || r == 0;  // quick: full alphabet on the double registry, cross-registry subset on the long double one
      for (const char* h : {"a", "b"}) for (const char* s : {"euler_1d", "heateq_2d_steady_const"}) { if (!full && !(std::string(h) == "a" && std::string(s) == "heateq_2d_steady_const")) continue; S.ops.push_back(opInit(r, h, s)); }
      for (const char* h : {"a", "b"}) { if (!full && std::string(h) == "b") continue; S.ops.push_back(opSel(r, h)); }
      S.ops.push_back(opSet(r, "u_0", 7.5L)); S.ops.push_back(opSet(r, "A_x", 7.5L));
      if (full) { S.ops.push_back(opSet(r, "u_0", 1.0L)); S.ops.push_back(opSet(r, "A_x", 1.0L)); }
      S.ops.push_back(opEval(r, "source_rho_u", "S", 0));
      if (full) { S.ops.push_back(opEval(r, "source_t", "SS", 0)); S.ops.push_back(mk(GETNAME, r)); S.ops.push_back(mk(GETDIM, r)); S.ops.push_back(mk(LIST, r)); }
    }
    S.key_last = (id == "c12");  // registry code is where call-order state would live: C12 keeps states apart by their last operation; C16 (misuse from every visible state) uses the plain observation
    if (id == "c16" || id == "c12x") {  // misuse operations from every state
      for (int r = 0; r < 2; r++) { S.ops.push_back(opSel(r, "nosuch")); S.ops.push_back(opInit(r, "c", "no_such_solution")); S.ops.push_back(opInit(r, "a", "euler_1dd")); }
      // solution names made of separators only normalise to the empty string: unknown, hence fatal
      for (int r = 0; r < 2; r++) for (const char* bad : {" ", "--", " - ", "- -"}) S.ops.push_back(opInit(r, "c", bad));
      // printf conversion specifications inside unknown handles and names (the text of a caller's string must never become a format)
      for (int r = 0; r < 2; r++) { S.ops.push_back(opSel(r, "run%s%s%n%s")); S.ops.push_back(opInit(r, "c%n%s", "no_%s%s%n_such")); }
      // one-character substitutions of a catalogue name (first, middle, last position): same length, all but one character right
      for (int r = 0; r < 2; r++) for (const char* bad : {"xuler_1d", "eulxr_1d", "euler_1x"}) S.ops.push_back(opInit(r, "c", bad));
      // a handle spelled like the catalogue name of a solution some handle may hold: unknown handle while unregistered (fatal), an ordinary handle once registered (thorough)
      for (int r = 0; r < 2; r++) for (const char* s : {"euler_1d", "heateq_2d_steady_const"}) S.ops.push_back(opSel(r, s));
    }
  } else if (id == "c16n") {
    // handles and catalogue names share one namespace of strings but must never be confused: a handle may be spelled like a
    // solution name (its own or another one's); selecting such a spelling is an error exactly while no handle has it
    S.solutions = {"euler_1d", "heateq_2d_steady_const"}; S.key_last = g_tier;
    for (int r = 0; r < (g_tier ? 2 : 1); r++) {
      for (const char* h : {"a", "euler_1d"}) for (const char* sol : {"euler_1d", "heateq_2d_steady_const"}) { if (r && std::string(h) == "a") continue; S.ops.push_back(opInit(r, h, sol)); }
      for (const char* h : {"a", "euler_1d", "heateq_2d_steady_const", "Euler_1d", "euler-1d"}) S.ops.push_back(opSel(r, h));
      S.ops.push_back(opSet(r, "u_0", 7.5L)); S.ops.push_back(mk(GETNAME, r));
      if (r == 0) { S.ops.push_back(opEval(r, "source_rho_u", "S", 0)); S.ops.push_back(opInit(r, "heateq_2d_steady_const", "no_such_solution")); S.ops.push_back(opInit(r, "euler_1d", "euler_1dd")); }
    }
  } else if (id == "c17s") {
    // C and C++ writes of the same vector interleaved, every sequence up to the depth, nothing merged
    S.solutions = {"radiation_integrated_intensity"}; S.prefix = {opInit(0, "r", "radiation_integrated_intensity", true)};
    S.ops = {opSetVec(0, "vec_mean", 3, true), opSetVecRel(0, "vec_mean", 4, true), opSetVec(0, "vec_mean", 3, false), opSetVecRel(0, "vec_mean", 5, false), mk(INITPARAM, 0, false), mk(INITPARAM, 0, true),
             opGetVec(0, "vec_mean", true), opSet(0, "no_gauss", 7.5L, true), opSet(0, "no_gauss", 7.5L, false), opGet(0, "no_gauss", true)};
  } else if (id == "c16l") {
    // registered handles of 32..41 and 64 characters that share their first character with an unknown handle: the error path may look at them
    S.solutions = {"euler_1d"}; S.key_last = false;
    for (int len : {32, 33, 39, 40, 41, 64}) { std::string h(len, 'h'); h[len - 1] = 'z'; S.ops.push_back(opInit(0, h, "euler_1d")); }
    S.ops.push_back(opInit(1, "only-in-long-double", "euler_1d")); S.ops.push_back(opSel(0, "only-in-long-double")); S.ops.push_back(opSel(1, "only-in-long-double"));  // registered in the other registry only: unknown here
    S.ops.push_back(opSel(0, "hX-unknown")); S.ops.push_back(opSel(0, std::string(36, 'h'))); S.ops.push_back(opInit(0, "hnew", "no_such_solution")); S.ops.push_back(mk(GETNAME, 0));
  } else if (id == "c16s") {
    // registry alphabet with misuse for the all-sequences exploration: in the exception build the history continues through every caught failure
    S.solutions = {"euler_1d", "heateq_2d_steady_const"};
    S.ops = {opInit(0, "a", "euler_1d"), opInit(0, "b", "heateq_2d_steady_const"), opSel(0, "a"), opSel(0, "b"), opSet(0, "u_0", 7.5L), mk(GETNAME, 0), mk(LIST, 0),
             opInit(0, "a", "euler_1dd"), opInit(0, "b", "no_such_solution"), opInit(0, "c", "no_such_solution"), opSel(0, "nosuch")};
    S.ops.push_back(mk(CBFAIL, 0));  // a fatal error raised inside a user callback and caught outside the evaluator
    if (g_tier) { S.ops.push_back(opInit(1, "a", "euler_1d")); S.ops.push_back(opInit(1, "a", "nosuch")); }
  } else if (id == "c12h") {
    // handle names whose order differs between comparators (lexicographic, natural/numeric, case-insensitive): re-initialisation and
    // selection must find the entry whatever the registry's internal order
    S.solutions = {"euler_1d", "heateq_2d_steady_const"}; S.key_last = false;
    for (const char* h : {"h2", "h10", "h3", "H3", "h1", ""}) { S.ops.push_back(opInit(0, h, "euler_1d")); S.ops.push_back(opSel(0, h)); }  // h1 and the empty handle are prefixes of others
    S.ops.push_back(opInit(0, "h3", "heateq_2d_steady_const")); S.ops.push_back(opInit(0, "h10", "heateq_2d_steady_const"));
    S.ops.push_back(opSet(0, "u_0", 7.5L)); S.ops.push_back(mk(GETNAME, 0)); S.ops.push_back(mk(LIST, 0));
  } else if (id == "c16v") {
    // failed calls on handles that own large vectors: a failed masa_init on an existing (selected or not) handle must leave the vectors of
    // every instance untouched; 600 entries = 4800 bytes, beyond any small-buffer threshold
    S.solutions = {"radiation_integrated_intensity", "cp_normal"}; S.key_last = false;
    for (int r = 0; r < (g_tier ? 2 : 1); r++) {
      S.ops.push_back(opInit(r, "a", "radiation_integrated_intensity")); S.ops.push_back(opInit(r, "b", "cp_normal")); S.ops.push_back(opSel(r, "a")); S.ops.push_back(opSel(r, "b"));
      S.ops.push_back(opSetVec(r, "vec_mean", 600)); S.ops.push_back(opSetVec(r, "vec_data", 600)); S.ops.push_back(opSetVecRel(r, "vec_mean", 6));  // (rel 6: replace by a vector of the same length: nothing of the old contents may travel back to the caller) S.ops.push_back(opGetVec(r, "vec_mean")); S.ops.push_back(opGetVec(r, "vec_data"));
      S.ops.push_back(opInit(r, "a", "no_such_solution")); S.ops.push_back(opInit(r, "b", "cp_normall")); S.ops.push_back(opInit(r, "c", "radiation")); S.ops.push_back(opSel(r, "nosuch"));
      if (r == 0) { S.ops.push_back(opEval(r, "source_u", "S", 0)); S.ops.push_back(opEval(r, "posterior_mean", "", 0)); }
    }
  } else if (id == "c12s") {
    // small registry alphabet for the all-sequences exploration (no state merging)
    S.solutions = {"euler_1d", "heateq_2d_steady_const"};
    S.ops = {opInit(0, "a", "euler_1d"), opInit(0, "a", "heateq_2d_steady_const"), opInit(0, "b", "euler_1d"), opInit(0, "b", "heateq_2d_steady_const"), opSel(0, "a"), opSel(0, "b"), opSet(0, "u_0", 7.5L), opEval(0, "source_rho_u", "S", 0), mk(PURGE, 0), opInit(1, "a", "euler_1d"), mk(GETNAME, 0)};
    if (g_tier) { S.ops.push_back(opSel(1, "a")); S.ops.push_back(mk(INITPARAM, 0)); }
  } else if (id == "c12w") {
    // a long vector replaced by another of the same length, on two handles: the caller's vector stays the caller's, each handle keeps its own
    S.solutions = {"radiation_integrated_intensity"}; S.key_last = false;
    for (const char* h : {"a", "b"}) { S.ops.push_back(opInit(0, h, "radiation_integrated_intensity")); S.ops.push_back(opSel(0, h)); }
    S.ops.push_back(opSetVec(0, "vec_amp", 100)); S.ops.push_back(opSetVecRel(0, "vec_amp", 6)); S.ops.push_back(opGetVec(0, "vec_amp"));
  } else if (id == "c12r") {
    // re-initialisation of a handle whose instance owns modified vectors: two handles holding the radiation solution (heap-allocated
    // vectors per instance), every vector may be replaced, then the same handle is initialised again (same and other solution)
    S.solutions = {"radiation_integrated_intensity", "euler_1d", "cp_normal"}; S.key_last = false;
    for (const char* h : {"a", "b"}) { S.ops.push_back(opInit(0, h, "radiation_integrated_intensity")); S.ops.push_back(opSel(0, h)); }
    // two instances of the other vector-owning solution: per-instance data must not be shared between them
    S.ops.push_back(opInit(0, "a", "cp_normal")); S.ops.push_back(opInit(0, "b", "cp_normal")); S.ops.push_back(opSetVec(0, "vec_data", 2)); S.ops.push_back(opGetVec(0, "vec_data")); S.ops.push_back(opEval(0, "posterior_mean", "", 0));
    S.ops.push_back(opInit(0, "a", "euler_1d")); S.ops.push_back(opInit(1, "a", "radiation_integrated_intensity"));
    for (const char* vn : {"vec_mean", "vec_amp", "vec_stdev"}) { S.ops.push_back(opSetVec(0, vn, 3)); S.ops.push_back(opGetVec(0, vn)); }
    S.ops.push_back(opSetVec(1, "vec_stdev", 3)); S.ops.push_back(opSetVecRel(0, "vec_stdev", 1));
    S.ops.push_back(opEval(0, "source_u", "S", 0)); S.ops.push_back(opEval(0, "exact_u", "S", 0)); S.ops.push_back(mk(INITPARAM, 0));
  } else if (id == "c12v") {
    // three handles, two solution types that own vector parameters (heap-allocated per instance): isolation of vectors, re-init resets them
    S.solutions = {"radiation_integrated_intensity", "cp_normal"}; S.key_last = false;
    for (const char* h : {"a", "b", "c"}) { for (const char* sol : {"radiation_integrated_intensity", "cp_normal"}) { if (std::string(h) == "c" && std::string(sol) == "cp_normal") continue; S.ops.push_back(opInit(0, h, sol)); } S.ops.push_back(opSel(0, h)); }
    S.ops.push_back(opSetVec(0, "vec_mean", 3)); S.ops.push_back(opSetVec(0, "vec_data", 2)); S.ops.push_back(opSet(0, "sigma", 2.5L)); S.ops.push_back(opSet(0, "no_gauss", 3.0L));
    S.ops.push_back(opEval(0, "posterior_mean", "", 0)); S.ops.push_back(opEval(0, "source_u", "S", 0)); S.ops.push_back(opGetVec(0, "vec_mean")); S.ops.push_back(mk(INITPARAM, 0));
  } else if (id == "c11") {
    std::string sol = g_solution; S.solutions = {sol}; defaults_for(sol); const Sol& d = DEFAULTS[0][sol];
    S.prefix = {opInit(0, "s", sol)};
    std::vector<std::string> names; if (!d.pn.empty()) { names.push_back(d.pn.front()); if (d.pn.size() > 2) names.push_back(d.pn[d.pn.size() / 2]); if (d.pn.size() > 1) names.push_back(d.pn.back()); }
    if (!d.vn.empty() && !g_tier && names.size() > 1) names.resize(1);  // solutions with vector parameters: the vector part of the space is the large one
    names.push_back("no_such_parameter"); names.push_back("");
    // values: ordinary, the "uninitialised" marker itself, and the marker's neighbours (a value that sanity_check classifies as the marker but
    // that is not bit-equal to it: next double towards zero; the decimal literal in long double, which differs from the double-rounded marker)
    std::vector<LD> vals = {1.5L, (LD)MARKER, (LD)std::nextafter(MARKER, 0.0), (LD)(-MARKER), (LD)std::numeric_limits<double>::denorm_min() * 3};  // (last: a subnormal double) if (g_tier) vals.push_back(-2.25L);  // (+12345.67: same magnitude as the marker, an ordinary value)
    for (size_t ni = 0; ni < names.size(); ni++) { for (size_t vi = 0; vi < vals.size(); vi++) { if (vi >= 2 && ni != 0 && !g_tier) continue; S.ops.push_back(opSet(0, names[ni], vals[vi])); } S.ops.push_back(opGet(0, names[ni])); }
    S.ops.push_back(mk(INITPARAM, 0)); S.ops.push_back(mk(PURGE, 0)); S.ops.push_back(mk(SANITY, 0)); S.ops.push_back(mk(DISPLAY, 0));
    for (size_t vi = 0; vi < d.vn.size(); vi++) { const std::string& vn = d.vn[vi]; std::vector<int> lens = {3}; if (vi == 0 || g_tier) lens.push_back(0); if (g_tier) { lens.push_back(1); lens.push_back(30); } for (int n : lens) S.ops.push_back(opSetVec(0, vn, n));
      S.ops.push_back(opSetVecRel(0, vn, 1)); if (vi == 0 || g_tier) { S.ops.push_back(opSetVecRel(0, vn, 2)); S.ops.push_back(opSetVecRel(0, vn, 3)); }  // extend by one entry / drop the last / store the same contents again
      S.ops.push_back(opGetVec(0, vn)); }
    if (EVAL_OF.count(sol)) S.ops.push_back(opEval(0, EVAL_OF[sol].first, EVAL_OF[sol].second, 0));  // evaluators use the values (and vector lengths) last set
    if (!d.vn.empty()) { S.ops.push_back(opSetVec(0, "no_such_vector", 2)); S.ops.push_back(opGetVec(0, "no_such_vector")); S.ops.push_back(mk(DISPLAYVEC, 0)); }
  } else if (id == "c11s") {
    // parameter-store alphabet for the all-sequences exploration (no state merging) on one solution, both registries
    std::string sol = g_solution; S.solutions = {sol}; defaults_for(sol); const Sol& d = DEFAULTS[0][sol];
    S.prefix = {opInit(0, "s", sol), opInit(1, "s", sol)};
    std::string p0 = d.pn.empty() ? "nosuch" : d.pn.front(), p1 = d.pn.size() > 1 ? d.pn.back() : p0;
    S.ops = {opSet(0, p0, 1.5L), opSet(0, p1, (LD)MARKER), opGet(0, p0), mk(PURGE, 0), mk(INITPARAM, 0), mk(SANITY, 0), opInit(0, "s", sol), opSet(1, p0, 1.5L), mk(PURGE, 1)};
    if (EVAL_OF.count(sol)) S.ops.push_back(opEval(0, EVAL_OF[sol].first, EVAL_OF[sol].second, 0));
    if (!d.vn.empty()) { S.ops.push_back(opSetVec(0, d.vn.front(), 3)); S.ops.push_back(opSetVecRel(0, d.vn.front(), 1)); S.ops.push_back(opGetVec(0, d.vn.front())); }
    if (g_tier) { S.ops.push_back(mk(DISPLAY, 0)); S.ops.push_back(opGet(1, p0)); }
  } else if (id == "c11l") {
    // the long double registry's scalar store: the decimal literal -12345.67L is classified as "uninitialised" by sanity_check but is not
    // bit-equal to the marker the library writes ((long double)(double)-12345.67)
    std::string sol = g_solution; S.solutions = {sol}; defaults_for(sol); const Sol& d = DEFAULTS[1][sol];
    S.prefix = {opInit(1, "s", sol)};
    if (!d.pn.empty()) { const std::string& n = d.pn.front(); for (LD v : {1.5L, (LD)MARKER, -12345.67L, std::numeric_limits<LD>::denorm_min() * 5}) S.ops.push_back(opSet(1, n, v)); S.ops.push_back(opGet(1, n)); if (d.pn.size() > 1) { S.ops.push_back(opSet(1, d.pn.back(), -12345.67L)); S.ops.push_back(opGet(1, d.pn.back())); } }
    S.ops.push_back(mk(INITPARAM, 1)); S.ops.push_back(mk(PURGE, 1)); S.ops.push_back(mk(SANITY, 1)); S.ops.push_back(mk(DISPLAY, 1));
  } else if (id == "c11all" || id == "c11allp") {
    // leak sweep: set_param on EVERY registered name, one step from the default state and from the purged state
    std::string sol = g_solution; S.solutions = {sol}; defaults_for(sol); const Sol& d = DEFAULTS[0][sol];
    S.prefix = {opInit(0, "s", sol), opInit(1, "s", sol)}; if (id == "c11allp") { S.prefix.push_back(mk(PURGE, 0)); S.prefix.push_back(mk(PURGE, 1)); }
    for (int r = 0; r < 2; r++) for (auto& n : d.pn) S.ops.push_back(opSet(r, n, 1.5L));
    S.max_depth = 1;
  } else if (id == "c10") {
    // cross-handle purity: A and B hold the same solution type, C another one; double and long double registries
    std::string sol = g_solution, other = (sol == "laplace_2d") ? "euler_1d" : "laplace_2d"; S.solutions = {sol, other}; defaults_for(sol); defaults_for(other);
    const Sol& d = DEFAULTS[0][sol]; const Sol& od = DEFAULTS[0][other];
    S.prefix = {opInit(0, "A", sol), opInit(0, "B", sol), opInit(0, "C", other), opInit(1, "A", sol), opSel(0, "A")};
    for (const char* h : {"A", "B", "C"}) S.ops.push_back(opSel(0, h));
    if (!d.pn.empty()) { S.ops.push_back(opSet(0, d.pn[d.pn.size() / 2], 7.5L)); S.ops.push_back(opSet(1, d.pn[d.pn.size() / 2], 7.5L)); if (d.pn.size() > 1) S.ops.push_back(opSet(0, d.pn[0], 1.75L)); }
    S.ops.push_back(opSet(0, od.pn[0], 7.5L));
    if (!d.vn.empty()) S.ops.push_back(opSetVec(0, d.vn[0], 3));
    int ne = 0;
    for (auto& e : g_evals) { size_t sl = e.find('/'); std::string fn = e.substr(0, sl), sig = e.substr(sl + 1); for (int t = 0; t < (g_tier ? 3 : 2); t++) { S.ops.push_back(opEval(0, fn, sig, t)); if (ne < 2) S.ops.push_back(opEval(1, fn, sig, t)); } ne++; }
    S.ops.push_back(opEval(0, other == "laplace_2d" ? "source_f" : "source_rho_u", other == "laplace_2d" ? "SS" : "S", 0));
  } else if (id == "c17") {
    // C and C++ views of the double registry mixed freely; states with non-zero statuses: purged (sanity 1), test fixture (init_param != 0), unknown array (1)
    S.solutions = {"euler_1d", "radiation_integrated_intensity"};
    for (bool c : {true, false}) {
      S.ops.push_back(opInit(0, "a", "euler_1d", c)); if (c || g_tier) S.ops.push_back(opInit(0, "r", "radiation_integrated_intensity", c));
      S.ops.push_back(opSel(0, "a", c)); if (c) S.ops.push_back(opSel(0, "r", c));
      S.ops.push_back(opSet(0, "u_0", 7.5L, c)); if (c) S.ops.push_back(opGet(0, "u_0", c)); if (c) S.ops.push_back(opGet(0, "nosuch", c));
      if (c) { S.ops.push_back(opSetVecRel(0, "vec_mean", 4, c)); S.ops.push_back(opSetVecRel(0, "vec_mean", 5, c)); }  // two arrays that differ only in the sign of a zero entry
      if (c) { S.ops.push_back(opSetVec(0, "u_0", 1, c)); S.ops.push_back(opSetVec(0, "u_0", 3, c)); S.ops.push_back(opGetVec(0, "u_0", c)); }  // a scalar parameter's name is not an array name
      if (c) { S.ops.push_back(opGet(0, "u_0\xc2\xb0", c)); S.ops.push_back(opSet(0, "u_0\xe9", 3.25L, c)); S.ops.push_back(opGetVec(0, "vec_mean\xe2\x80\x8b", c)); }  // a registered name followed by a non-ASCII byte is another (unknown) name
      if (c) { S.ops.push_back(mk(PURGE, 0, c)); S.ops.push_back(mk(INITPARAM, 0, c)); S.ops.push_back(mk(SANITY, 0, c)); S.ops.push_back(mk(GETNAME, 0, c)); S.ops.push_back(mk(GETDIM, 0, c)); S.ops.push_back(mk(DISPLAY, 0, c)); S.ops.push_back(mk(DISPLAYVEC, 0, c)); S.ops.push_back(mk(LIST, 0, c)); }
      else { S.ops.push_back(mk(PURGE, 0, c)); S.ops.push_back(mk(INITPARAM, 0, c)); }
      if (c) { S.ops.push_back(opSetVec(0, "vec_mean", 3, c)); S.ops.push_back(opSetVec(0, "vec_mean", 0, c)); S.ops.push_back(opGetVec(0, "vec_mean", c)); S.ops.push_back(opGetVec(0, "nosuch", c)); } else S.ops.push_back(opGetVec(0, "vec_mean", c));
      S.ops.push_back(opEval(0, "source_rho_u", "S", 0, c));
    }
  } else { fprintf(stderr, "unknown space %s\n", id.c_str()); exit(2); }
  return S;
}
