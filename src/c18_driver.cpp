// C18 executed layer: call every Fortran-bound symbol through a C shim that declares it only with the prototype the
// Fortran interface implies, on a registry prepared through the C++ API, and compare everything observable with the
// corresponding C++ <double> call.  One forked child per (interface, solution).
#include "api_gen.hpp"
#include <masa.h>
#include <cmath>
#include <cstdio>
#include <cstring>
#include <fcntl.h>
#include <iostream>
#include <string>
#include <sys/wait.h>
#include <unistd.h>
#include <vector>
using namespace MASA;
extern "C" {
typedef double (*shim_fn)(const double*, const int*, const char* const*, double*, int*);
extern shim_fn SHIMS[]; extern const char* SHIM_SYMS[]; extern const char* SHIM_ABI[]; extern int N_SHIMS;
}
static std::string g_cap; static FILE* OUT;
template <class F> static std::string capture(F f) {
  std::cout.flush(); fflush(stdout); int saved = dup(1); int fd = open(g_cap.c_str(), O_RDWR | O_CREAT | O_TRUNC, 0600);
  dup2(fd, 1); f(); std::cout.flush(); fflush(stdout); dup2(saved, 1); close(saved);
  off_t n = lseek(fd, 0, SEEK_END); lseek(fd, 0, SEEK_SET); std::string s(n, '\0'); if (n > 0) { ssize_t r = read(fd, &s[0], n); (void)r; } close(fd); return s;
}
static std::string jesc(const std::string& s) { std::string r; for (unsigned char c : s) { if (c == '"' || c == '\\') { r.push_back('\\'); r.push_back(c); } else if (c == '\n') r += "\\n"; else if (c < 32) r += "?"; else r.push_back(c); } return r; }
static void viol(const std::string& what, const std::string& sym) { fprintf(OUT, "{\"k\":\"viol\",\"what\":\"%s\",\"symbol\":\"%s\"}\n", jesc(what).c_str(), sym.c_str()); fflush(OUT); }
static bool same(double a, double b) { return (a != a && b != b) || memcmp(&a, &b, sizeof a) == 0; }
static double cb_d(double T) { return 2.75 + 0.25 * T; }
static long st = 0, calls = 0, valid = 0;
static const char* SOLS[] = {"euler_1d", "euler_2d", "euler_3d", "navierstokes_4d_compressible_powerlaw", "heateq_2d_unsteady_const", "euler_chem_1d", "laplace_2d", "axisymmetric_euler"};
static const double TUP[2][4] = {{0.3125, 0.4375, 0.28125, 0.125}, {1.078125, 0.90625, 1.21875, 0.78125}};

// run body in a child; returns wait status; child writes its counters into a pipe
template <class F> static int in_child(F body) {
  fflush(OUT); int pfd[2]; if (pipe(pfd)) return -1;
  pid_t pid = fork();
  if (pid == 0) { close(pfd[0]); long c0[3] = {st, calls, valid}; body(); long d[3] = {st - c0[0], calls - c0[1], valid - c0[2]}; ssize_t w = write(pfd[1], d, sizeof d); (void)w; fflush(OUT); _exit(0); }
  close(pfd[1]); long d[3] = {0, 0, 0}; ssize_t r = read(pfd[0], d, sizeof d); (void)r; close(pfd[0]); st += d[0]; calls += d[1]; valid += d[2];
  int s; waitpid(pid, &s, 0); return s;
}

int main(int argc, char** argv) {
  OUT = fopen(argv[1], "w"); g_cap = std::string(argv[1]) + ".cap";
  for (int k = 0; k < N_SHIMS; k++) {
    std::string sym = SHIM_SYMS[k], abi = SHIM_ABI[k]; shim_fn f = SHIMS[k];
    int nd = 0; char dimc = 0; char nm[128];
    if (sscanf(sym.c_str(), "masa_eval_%cd_%127s", &dimc, nm) == 2 && isdigit(dimc)) {
      std::string sig; for (size_t i = 2; i + 1 < abi.size(); i++) sig += abi[i] == 'd' ? 'S' : abi[i] == 'i' ? 'I' : (abi[i] == 'F' || abi[i] == 'G') ? 'F' : '?';
      const ApiEntry* e = api_find(nm, sig.c_str());
      if (!e) { fprintf(OUT, "{\"k\":\"uncovered\",\"symbol\":\"%s\",\"why\":\"no C++ template masa_eval_%s(%s)\"}\n", sym.c_str(), nm, sig.c_str()); continue; }
      for (const char* sol : SOLS) {
        int s = in_child([&] {
          capture([&] { masa_init<double>("f", sol); });
          for (int t = 0; t < 2; t++) {
            ApiArgs A; for (int q = 0; q < 4; q++) A.s[q] = TUP[t][q]; A.i = t + 1; A.fd = cb_d; A.fl = 0;
            double expect = 0, got = 0; int iv[1] = {t + 1};
            std::string o1 = capture([&] { expect = e->cd(A); });
            std::string o2 = capture([&] { got = f(TUP[t], iv, 0, 0, 0); });
            st++; calls += 2; valid++;
            if (!same(expect, got) || o1 != o2) { char b[400]; snprintf(b, sizeof b, "%s called through its Fortran prototype %s on %s returns %.17g, the C++ <double> call returns %.17g", sym.c_str(), abi.c_str(), sol, got, expect); viol(b, sym); }
            else if (t == 0 && !strcmp(sol, "euler_3d")) fprintf(OUT, "{\"k\":\"sample\",\"symbol\":\"%s\",\"fortran_abi\":\"%s\",\"solution\":\"%s\",\"value\":\"%.17g\"}\n", sym.c_str(), abi.c_str(), sol, got);
          }
        });
        if (!WIFEXITED(s) || WEXITSTATUS(s) != 0) { viol(sym + " called through its Fortran prototype " + abi + " on " + sol + " terminated the process (wait status " + std::to_string(s) + ")", sym); }
      }
      (void)nd; continue;
    }
    // ---- non-evaluator interfaces
    int s = 0; bool handled = true;
    if (sym == "masa_init") s = in_child([&] {
      const char* sv[2] = {"fh", "heateq_2d_steady_const"}; capture([&] { f(0, 0, sv, 0, 0); }); std::string n; masa_get_name<double>(&n); std::string l = capture([] { masa_list_mms<double>(); });
      st++; calls++; valid++; if (n != "heateq_2d_steady_const" || l.find("fh : heateq_2d_steady_const") == std::string::npos) viol("masa_init through its Fortran prototype did not register/select the solution", sym);
      // a handle is used verbatim: a blank-padded one (a fixed-length character variable) is another handle than its trimmed twin
      const char* sp[2] = {"pad   ", "euler_1d"}; capture([&] { f(0, 0, sp, 0, 0); }); l = capture([] { masa_list_mms<double>(); }); bool sel_ok = true; std::string nm2;
      capture([&] { masa_init<double>("other", "laplace_2d"); });
      if (l.find("pad    : euler_1d") == std::string::npos) sel_ok = false;
      st++; calls++; valid++; if (!sel_ok) viol("masa_init through its Fortran prototype did not register the blank-padded handle 'pad   ' verbatim (masa_list_mms: " + l.substr(0, 120) + ")", sym); });
    else if (sym == "masa_select_mms") s = in_child([&] {
      capture([] { masa_init<double>("a", "euler_1d"); masa_init<double>("a  ", "heateq_2d_steady_const"); masa_init<double>("b", "laplace_2d"); }); const char* sv[1] = {"a"}; capture([&] { f(0, 0, sv, 0, 0); }); std::string n; masa_get_name<double>(&n);
      st++; calls++; valid++; if (n != "euler_1d") viol("masa_select_mms through its Fortran prototype did not select handle a", sym);
      const char* sw[1] = {"a  "}; capture([&] { f(0, 0, sw, 0, 0); }); masa_get_name<double>(&n);
      st++; calls++; valid++; if (n != "heateq_2d_steady_const") viol("masa_select_mms through its Fortran prototype did not select the blank-padded handle 'a  ' (selected " + n + ")", sym); });
    else if (sym == "masa_list_mms" || sym == "masa_display_param" || sym == "masa_display_array") s = in_child([&] {
      capture([] { masa_init<double>("a", "euler_1d"); masa_init<double>("r", "radiation_integrated_intensity"); });
      std::string a = capture([&] { f(0, 0, 0, 0, 0); }), b = capture([&] { if (sym == "masa_list_mms") masa_list_mms<double>(); else if (sym == "masa_display_param") masa_display_param<double>(); else masa_display_vec<double>(); });
      st++; calls += 2; valid++; if (a != b) viol(sym + " through its Fortran prototype prints something different from the C++ call", sym); });
    else if (sym == "masa_purge_default_param") s = in_child([&] {
      capture([] { masa_init<double>("a", "euler_1d"); }); f(0, 0, 0, 0, 0); int sc = 0; capture([&] { sc = masa_sanity_check<double>(); });
      st++; calls++; valid++; if (sc == 0 || masa_get_param<double>("u_0") != -12345.67) viol("masa_purge_default_param through its Fortran prototype did not purge", sym); });
    else if (sym == "masa_sanity_check") s = in_child([&] {
      capture([] { masa_init<double>("a", "euler_1d"); }); double r0 = 0, r1 = 0; int c0 = 0, c1 = 0;
      capture([&] { r0 = f(0, 0, 0, 0, 0); c0 = masa_sanity_check<double>(); masa_purge_default_param<double>(); r1 = f(0, 0, 0, 0, 0); c1 = masa_sanity_check<double>(); });
      st += 2; calls += 4; valid += 3; if (abi[0] == 'i' && ((int)r0 != c0 || (int)r1 != c1)) viol("masa_sanity_check through its Fortran prototype returns a status different from the C++ call", sym);
      if (c0 != 0 || c1 == 0 || masa_get_param<double>("u_0") != -12345.67) viol("masa_sanity_check through its Fortran prototype changed the parameters it is supposed to inspect (purged state not preserved)", sym); });
    else if (sym == "masa_init_param") s = in_child([&] {
      capture([] { masa_init<double>("a", "euler_1d"); }); double d0 = masa_get_param<double>("u_0"); masa_set_param<double>("u_0", 9.25); capture([&] { f(0, 0, 0, 0, 0); });
      st++; calls++; valid++; if (masa_get_param<double>("u_0") != d0) viol("masa_init_param through its Fortran prototype did not restore defaults", sym); });
    else if (sym == "masa_get_param") s = in_child([&] {
      capture([] { masa_init<double>("a", "euler_1d"); }); masa_set_param<double>("u_0", 3.25);
      for (const char* nme : {"u_0", "Gamma", "nosuch"}) { const char* sv[1] = {nme}; double g = 0, e = 0; std::string o1 = capture([&] { g = f(0, 0, sv, 0, 0); }), o2 = capture([&] { e = masa_get_param<double>(nme); }); st++; calls += 2; valid++; if (!same(g, e) || o1 != o2) viol(std::string("masa_get_param(") + nme + ") through its Fortran prototype differs from the C++ call", sym); } });
    else if (sym == "masa_set_param") s = in_child([&] {
      capture([] { masa_init<double>("a", "euler_1d"); });
      for (double v : {2.5, -7.125}) { const char* sv[1] = {"u_0"}; double d[1] = {v}; capture([&] { f(d, 0, sv, 0, 0); }); st++; calls++; valid++; if (masa_get_param<double>("u_0") != v) viol("masa_set_param through its Fortran prototype did not store the value", sym); } });
    else if (sym == "masa_get_array") s = in_child([&] {
      capture([] { masa_init<double>("r", "radiation_integrated_intensity"); });
      for (const char* nme : {"vec_mean", "vec_amp", "vec_stdev"}) { std::vector<double> v; capture([&] { masa_get_vec<double>(nme, v); }); double arr[256]; for (double& x : arr) x = -777; int n = -5; const char* sv[1] = {nme}; capture([&] { f(0, 0, sv, arr, &n); });
        st++; calls += 2; valid++; bool ok = n == (int)v.size(); for (int i = 0; ok && i < n; i++) ok = same(arr[i], v[i]); if (ok && arr[n] != -777) ok = false;
        if (!ok) viol(std::string("masa_get_array(") + nme + ") through its Fortran prototype returns length/contents different from masa_get_vec<double>", sym); } });
    else handled = false;
    if (!handled) { fprintf(OUT, "{\"k\":\"uncovered\",\"symbol\":\"%s\",\"why\":\"no executed comparison written for this interface\"}\n", sym.c_str()); continue; }
    if (!WIFEXITED(s) || WEXITSTATUS(s) != 0) viol(sym + " called through its Fortran prototype " + abi + " terminated the process (wait status " + std::to_string(s) + ")", sym);
  }
  fprintf(OUT, "{\"k\":\"totals\",\"states\":%ld,\"calls\":%ld,\"validated\":%ld}\n", st, calls, valid);
  fclose(OUT); unlink(g_cap.c_str());
  return 0;
}
