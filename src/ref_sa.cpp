// C05 reference: Spalart-Allmaras closures.
//  * rans_sa: fully developed channel,  d/deta[(1/Re_tau + nu_t) u'] + 1   and the SA transport equation
//  * fans_sa_transient_free_shear / fans_sa_steady_wall_bounded: Favre-averaged compressible NS + conservative SA,
//    mu_t = rho nu f_v1(rho nu/mu) differentiated as a function of position (jet), heat flux cp(mu/Pr+mu_t/Pr_t) grad T.
#include "e1.hpp"

namespace {
const Q EPS_BRANCH = Q(1) / 1024;  // relative distance kept from the switching surfaces of the model

bool finite(VS a) { return finiteq(a.v) && finiteq(a.s); }

// ------------------------------------------------------------------------------------------- channel
bool rans_ref(const Params& P, const Pt& p, std::vector<Expect>& out) {
  Q e = p.c[0];
  RJ E = RJ::var(e, 0);
  Q a1 = 2, b1 = 1, em = Q(6) / 10;
  RJ u = a1 * E * (1 - E / 2);
  RJ nu = b1 * E - (em + 1) * b1 * E * E / (2 * em) + b1 * E * E * E / (3 * em);
  Q re = P("re_tau"), cv1 = P("cv1"), kap = P("kappa"), sig = P("sigma");
  if (!(re > 0 && kap > 0 && sig > 0 && cv1 > 0)) return false;
  if (!(e > 0 && e < 1) || !(nu.v > 0)) return false;
  RJ chi = nu * re, c3 = chi * chi * chi;
  RJ fv1 = c3 / (c3 + cv1 * cv1 * cv1);
  RJ vt = nu * fv1;
  VS qu = d1((1 / re + vt) * D(u, 0), 0) + VS(1, 1);
  // SA source: production - destruction + diffusion  (Johnson-Allmaras modified S~, r clipped at 10)
  Q k2 = kap * kap, cv2 = P("cv2"), cv3 = P("cv3");
  RJ fv2 = 1 - chi / (1 + chi * fv1);
  RJ Om = D(u, 0);  // du/deta > 0 on (0,1)
  RJ Sbar = nu * fv2 / (k2 * E * E);
  Q sw = Sbar.v + cv2 * Om.v;
  if (qabs(sw) < EPS_BRANCH * (qabs(Sbar.v) + qabs(cv2 * Om.v) + 1)) return false;
  RJ S;
  if (sw >= 0) { S = Om + Sbar; if (!p.special) e1_count("S~ branch 1 (Sbar >= -cv2*Omega)"); }
  else {
    RJ den = (cv3 - 2 * cv2) * Om - Sbar;
    if (qabs(den.v) < EPS_BRANCH * (qabs(Sbar.v) + qabs(Om.v))) return false;
    S = Om + Om * (cv2 * cv2 * Om + cv3 * Sbar) / den; if (!p.special) e1_count("S~ branch 2 (Sbar < -cv2*Omega)");
  }
  if (qabs(S.v) < EPS_BRANCH) return false;
  RJ r = nu / (S * k2 * E * E);
  if (qabs(r.v - 10) < 10 * EPS_BRANCH) return false;
  if (r.v > 10) { r = RJ(Q(10)); if (!p.special) e1_count("r clipped at 10"); } else if (!p.special) e1_count("r not clipped");
  RJ r2 = r * r; RJ r6 = r2 * r2 * r2;
  RJ g = r + P("cw2") * (r6 - r);
  Q cw3 = P("cw3"); Q cw36 = powq(cw3, 6);
  RJ g2 = g * g; RJ g6 = g2 * g2 * g2;
  if (!(g6.v + cw36 > 0)) return false;
  RJ fw = g * powc((1 + cw36) / (g6 + cw36), Q(1) / 6);
  Q cw1 = P("cb1") / k2 + (1 + P("cb2")) / sig;
  RJ ne = nu / E;
  VS diff = (d1((1 / re + nu) * D(nu, 0), 0) + val(P("cb2") * D(nu, 0) * D(nu, 0))) / sig;
  VS qv = val(P("cb1") * S * nu) - val(cw1 * fw * ne * ne) + diff;
  if (!finite(qu) || !finite(qv)) return false;
  out.push_back(mk("C05", "source_u", "S", p, V_X, qu));
  out.push_back(mk("C05", "source_v", "S", p, V_X, qv));
  out.push_back(mk("C05", "exact_u", "S", p, V_X, val(u)));
  out.push_back(mk("C05", "exact_v", "S", p, V_X, val(nu)));
  return true;
}

// ------------------------------------------------------------------------------ FANS-SA common operator
struct Fans { VS rho, m[2], nu, e; };
struct FansIn { RJ rho, u, v, p, T, nu; Q mu, cv1, cb1, cb2, sigma, Pr, Prt, R, Gamma; bool transient; };
// Ssa: SA vorticity-based scalar (value), dest: destruction term value (0 for free shear)
Fans fans_operator(const FansIn& F, bool frozen_fv1, VS Ssa, VS dest) {
  Fans o;
  RJ chi = F.rho * F.nu / F.mu, c3 = chi * chi * chi;
  RJ fv1 = c3 / (c3 + F.cv1 * F.cv1 * F.cv1);
  if (frozen_fv1) { RJ f0; f0.v = fv1.v; f0.mv = fv1.mv; fv1 = f0; }
  RJ mut = F.rho * F.nu * fv1, mue = mut + F.mu;
  RJ vel[2] = {F.u, F.v};
  RJ div = D(F.u, 0) + D(F.v, 1);
  o.rho = d1(F.rho, 3) + d1(F.rho * F.u, 0) + d1(F.rho * F.v, 1);
  Q cv = F.R / (F.Gamma - 1), cp = F.Gamma * cv;
  RJ E = cv * F.T + (F.u * F.u + F.v * F.v) / 2, H = E + F.p / F.rho;
  o.e = d1(F.rho * E, 3) + d1(F.rho * F.u * H, 0) + d1(F.rho * F.v * H, 1);
  RJ kc = cp * (F.mu / F.Pr + mut / F.Prt);
  for (int i = 0; i < 2; i++) {
    o.m[i] = d1(F.rho * vel[i], 3) + d1(F.p, i);
    for (int j = 0; j < 2; j++) {
      o.m[i] = o.m[i] + d1(F.rho * vel[i] * vel[j], j);
      RJ tau = mue * (D(vel[i], j) + D(vel[j], i));
      if (i == j) tau = tau - (Q(2) / 3) * mue * div;
      o.m[i] = o.m[i] - d1(tau, j);
      o.e = o.e - d1(tau * vel[i], j);
    }
  }
  for (int j = 0; j < 2; j++) o.e = o.e - d1(kc * D(F.T, j), j);
  o.nu = d1(F.rho * F.nu, 3) + d1(F.rho * F.nu * F.u, 0) + d1(F.rho * F.nu * F.v, 1) - F.cb1 * (Ssa * val(F.rho * F.nu)) + dest;
  for (int j = 0; j < 2; j++) o.nu = o.nu - (d1((F.rho * F.nu + F.mu) * D(F.nu, j), j) + val(F.cb2 * F.rho * D(F.nu, j) * D(F.nu, j))) / F.sigma;
  return o;
}

// --------------------------------------------------------------------------------------- free shear
bool fs_fields(const Params& P, const RJ& X, const RJ& Y, const RJ& T, FansIn& F) {
  Q L = P("L");
  auto ph = [&](const char* a, const RJ& c) { return P(a) * PIq * c / L; };
  F.nu = RJ(P("nu_sa_0")) + P("nu_sa_x") * cos(ph("a_nusax", X)) + P("nu_sa_y") * cos(ph("a_nusay", Y)) + P("nu_sa_t") * cos(ph("a_nusat", T));
  F.rho = RJ(P("rho_0")) + P("rho_x") * sin(ph("a_rhox", X)) + P("rho_y") * cos(ph("a_rhoy", Y)) + P("rho_t") * sin(ph("a_rhot", T));
  F.u = RJ(P("u_0")) + P("u_x") * sin(ph("a_ux", X)) + P("u_y") * cos(ph("a_uy", Y)) + P("u_t") * cos(ph("a_ut", T));
  F.v = RJ(P("v_0")) + P("v_x") * cos(ph("a_vx", X)) + P("v_y") * sin(ph("a_vy", Y)) + P("v_t") * sin(ph("a_vt", T));
  F.p = RJ(P("p_0")) + P("p_x") * cos(ph("a_px", X)) + P("p_y") * sin(ph("a_py", Y)) + P("p_t") * cos(ph("a_pt", T));
  F.mu = P("mu"); F.cv1 = P("c_v1"); F.cb1 = P("c_b1"); F.cb2 = P("c_b2"); F.sigma = P("sigma"); F.Pr = P("Pr"); F.Prt = P("Pr_t"); F.R = P("R"); F.Gamma = P("Gamma");
  const Q m = Q(1) / 16;
  if (!(F.rho.v > m && F.nu.v > m && F.p.v > m && F.mu > 0 && F.R > 0)) return false;
  if (F.sigma == 0 || F.Pr == 0 || F.Prt == 0 || F.Gamma == 1) return false;
  F.T = F.p / (F.rho * F.R);
  RJ c = F.rho * F.nu / F.mu; if (qabs(c.v * c.v * c.v + F.cv1 * F.cv1 * F.cv1) < m) return false;
  return true;
}
bool fs_ref(const Params& P, const Pt& p, std::vector<Expect>& out) {
  for (int pass = 0; pass < 2; pass++) {  // pass 0: three-argument forms at (x,y,t); pass 1: two-argument forms == t = 0
    RJ X = RJ::var(p.c[0], 0), Y = RJ::var(p.c[1], 1), T = RJ::var(pass ? (LD)0 : p.c[3], 3);
    FansIn F; if (!fs_fields(P, X, Y, T, F)) return false;
    RJ om = D(F.u, 1) - D(F.v, 0);
    if (qabs(om.v) < Q(1) / 256) return false;  // |vorticity| is not differentiable at 0
    VS S(qabs(om.v), om.mv);
    Fans o = fans_operator(F, false, S, VS()), fr = fans_operator(F, true, S, VS());
    if (!finite(o.e) || !finite(o.m[0]) || !finite(o.nu)) return false;
    const int* vars = pass ? V_XY : V_XYT; const char* s = pass ? "SS" : "SSS";
    out.push_back(mk("C05", "source_rho", s, p, vars, o.rho));
    Expect eu = mk("C05", "source_rho_u", s, p, vars, o.m[0]); eu.alt_id = "fs-frozen-fv1"; eu.alt = fr.m[0]; out.push_back(eu);
    Expect ev = mk("C05", "source_rho_v", s, p, vars, o.m[1]); ev.alt_id = "fs-frozen-fv1"; ev.alt = fr.m[1]; out.push_back(ev);
    out.push_back(mk("C05", "source_nu", s, p, vars, o.nu));
    Expect ee = mk("C05", "source_rho_e", s, p, vars, o.e); ee.alt_id = "fs-frozen-fv1"; ee.alt = fr.e; out.push_back(ee);
    out.push_back(mk("C05", "exact_nu", s, p, vars, val(F.nu)));
    if (pass) {
      out.push_back(mk("C05", "exact_u", s, p, vars, val(F.u)));
      out.push_back(mk("C05", "exact_v", s, p, vars, val(F.v)));
      out.push_back(mk("C05", "exact_p", s, p, vars, val(F.p)));
      out.push_back(mk("C05", "exact_rho", s, p, vars, val(F.rho)));
    }
  }
  return true;
}

// ------------------------------------------------------------------------------------- wall bounded
bool wall_ref(const Params& P, const Pt& p, std::vector<Expect>& out) {
  Q x = p.c[0], y = p.c[1];
  if (!(x > 0 && y > 0)) { e1_count("inadmissible: wall#1"); return false; }
  RJ X = RJ::var(x, 0), Y = RJ::var(y, 1);
  Q kap = P("kappa"), Gam = P("Gamma"), R = P("R"), Tinf = P("T_inf"), Minf = P("M_inf"), rT = P("r_T"), p0 = P("p_0"), mu = P("mu");
  if (!(kap > 0 && Gam > 1 && R > 0 && Tinf > 0 && Minf > 0 && rT > 0 && p0 > 0 && mu > 0 && P("eta1") > 0 && P("C_cf") > 0 && P("sigma") != 0 && P("Pr") != 0 && P("Pr_t") != 0)) { e1_count("inadmissible: wall#2"); return false; }
  Q C1 = -1 / kap * logq(kap) + P("C");
  Q uinf = Minf * sqrtq(Gam * R * Tinf), rhoinf = p0 / R / Tinf, Taw = Tinf * (1 + rT * (Gam - 1) * Minf * Minf / 2), rhow = p0 / R / Taw;
  if (!(Taw > Tinf)) { e1_count("inadmissible: wall#3"); return false; }
  Q A = sqrtq(1 - Tinf / Taw);
  Q Fc = (Taw / Tinf - 1) / (asinq(A) * asinq(A)), nuw = mu / rhow;
  RJ Rex = rhoinf * uinf * X / mu;
  RJ cf = P("C_cf") / Fc * powc(Rex / Fc, Q(-1) / 7);
  RJ utau = uinf * sqrt(cf / 2);
  RJ yp = Y * utau / nuw;
  if (!(1 + kap * yp.v > 0)) { e1_count("inadmissible: wall#4"); return false; }
  RJ ueqp = 1 / kap * log(1 + kap * yp) + C1 * (1 - exp(-yp / P("eta1")) - yp / P("eta1") * exp(-yp * P("b")));
  RJ ueq = utau * ueqp;
  RJ arg = A / uinf * ueq;
  RJ U = uinf / A * sin(arg);
  RJ V = P("eta_v") * utau * Y / X / 14;
  RJ T = Tinf * (1 + rT * (Gam - 1) * Minf * Minf * (1 - U * U / (uinf * uinf)) / 2);
  if (!(T.v > 0)) { e1_count("inadmissible: wall#5"); return false; }
  RJ rho = p0 / R / T;
  RJ nu = kap * utau * Y - P("alpha") * Y * Y;
  if (!(nu.v > 0)) { e1_count("inadmissible: wall#6"); return false; }
  FansIn F; F.rho = rho; F.u = U; F.v = V; F.p = RJ(p0); F.T = T; F.nu = nu; F.mu = mu; F.cv1 = P("c_v1"); F.cb1 = P("c_b1"); F.cb2 = P("c_b2");
  F.sigma = P("sigma"); F.Pr = P("Pr"); F.Prt = P("Pr_t"); F.R = R; F.Gamma = Gam;
  RJ chi = rho * nu / mu, c3 = chi * chi * chi; Q cv13 = F.cv1 * F.cv1 * F.cv1;
  if (qabs(c3.v + cv13) < Q(1) / 1024) { e1_count("inadmissible: wall#7"); return false; }
  RJ fv1 = c3 / (c3 + cv13), fv2 = 1 - chi / (1 + chi * fv1);
  RJ om = D(U, 1) - D(V, 0);
  if (qabs(om.v) < Q(1) / 256) { e1_count("inadmissible: wall#8"); return false; }
  RJ Om = om.v > 0 ? om : -om;
  Q d = y; Q cv2 = P("c_v2"), cv3 = P("c_v3");
  RJ Sm0 = nu / (kap * kap * d * d) * fv2;
  Q sw = Sm0.v + cv2 * Om.v;
  if (qabs(sw) < EPS_BRANCH * (qabs(Sm0.v) + qabs(cv2 * Om.v) + 1)) { e1_count("inadmissible: wall#9"); return false; }
  RJ Sm;
  if (sw >= 0) { Sm = Sm0; if (!p.special) e1_count("S~ branch 1 (-c_v2*Omega <= Sm)"); }
  else {
    RJ den = (cv3 - 2 * cv2) * Om - Sm0;
    if (qabs(den.v) < EPS_BRANCH * (qabs(Sm0.v) + qabs(Om.v))) { e1_count("inadmissible: wall#10"); return false; }
    Sm = Om * (cv2 * cv2 * Om + cv3 * Sm0) / den; if (!p.special) e1_count("S~ branch 2 (-c_v2*Omega > Sm)");
  }
  RJ Ssa = Sm + Om;
  if (qabs(Ssa.v) < EPS_BRANCH) { e1_count("inadmissible: wall#11"); return false; }
  RJ r = nu / Ssa / (kap * kap * d * d);
  RJ r2 = r * r, r6 = r2 * r2 * r2;
  RJ g = r + P("c_w2") * (r6 - r);
  Q cw36 = powq(P("c_w3"), 6); RJ g2 = g * g, g6 = g2 * g2 * g2;
  if (!(g6.v + cw36 > 0)) { e1_count("inadmissible: wall#12"); return false; }
  RJ fw = g * powc((1 + cw36) / (g6 + cw36), Q(1) / 6);
  Q cw1 = P("c_b1") / (kap * kap) + (1 + P("c_b2")) / P("sigma");
  RJ nd = nu / d;
  if (getenv("E1_DEBUG_WALL")) { auto pr = [](const char* n, const RJ& a) { fprintf(stderr, "%s v=%s mv=%s | ", n, q2s(a.v, 6).c_str(), q2s(a.mv, 6).c_str()); };
    pr("utau", utau); pr("yp", yp); pr("ueqp", ueqp); pr("U", U); pr("T", T); pr("rho", rho); pr("nu", nu); pr("chi", chi); pr("fv1", fv1); pr("fv2", fv2); pr("Om", Om); pr("Sm0", Sm0); pr("Ssa", Ssa); pr("r", r); pr("g", g); pr("fw", fw); fprintf(stderr, "\n"); }
  Fans o = fans_operator(F, false, val(Ssa), val(cw1 * fw * rho * nd * nd));
  if (!finite(o.e) || !finite(o.m[0]) || !finite(o.m[1]) || !finite(o.nu)) { e1_count("inadmissible: wall#13"); return false; }
  if (!p.special) e1_count(om.v > 0 ? "vorticity du/dy - dv/dx > 0" : "vorticity du/dy - dv/dx < 0");
  const char* s = "SS";
  out.push_back(mk("C05", "exact_u", s, p, V_XY, val(U)));
  out.push_back(mk("C05", "exact_v", s, p, V_XY, val(V)));
  out.push_back(mk("C05", "exact_t", s, p, V_XY, val(T)));
  out.push_back(mk("C05", "exact_rho", s, p, V_XY, val(rho)));
  out.push_back(mk("C05", "exact_nu", s, p, V_XY, val(nu)));
  out.push_back(mk("C05", "exact_p", s, p, V_XY, VS(p0, qabs(p0))));
  out.push_back(mk("C05", "source_rho", s, p, V_XY, o.rho));
  out.push_back(mk("C05", "source_rho_u", s, p, V_XY, o.m[0]));
  out.push_back(mk("C05", "source_rho_v", s, p, V_XY, o.m[1]));
  out.push_back(mk("C05", "source_nu", s, p, V_XY, o.nu));
  out.push_back(mk("C05", "source_rho_e", s, p, V_XY, o.e));
  return true;
}

struct Reg {
  Reg() {
    {
      System s; s.name = "rans_sa"; s.prop = "C05"; s.dim = 1;
      s.base = [](Params& P) {
        P.m["re_tau"] = dy(38400); P.m["cv1"] = dy(5427); P.m["kappa"] = dy(440); P.m["sigma"] = dy(727); P.m["cw3"] = dy(1946);
        P.m["cw2"] = dy(287); P.m["cb1"] = dy(143); P.m["cb2"] = dy(614); P.m["cv2"] = dy(666); P.m["cv3"] = dy(952);
      };
      s.points = [](int tier) {
        std::vector<Pt> pts; const long q[] = {72, 215, 461, 614, 850, 993}, t[] = {31, 72, 140, 215, 330, 461, 540, 614, 730, 850, 940, 993};
        if (tier) for (long k : t) pts.push_back(Pt(dy(k), 0, 0, 0)); else for (long k : q) pts.push_back(Pt(dy(k), 0, 0, 0));
        return pts;
      };
      s.reference = rans_ref; s.max_dev_quick = 2; s.max_dev_thorough = 3; s.pointwise_admissibility = true;
      e1_systems().push_back(s);
    }
    {
      System s; s.name = "fans_sa_transient_free_shear"; s.prop = "C05"; s.dim = 2;
      s.base = [](Params& P) { P.m["p_0"] = 40; P.m["mu"] = dy(1100); P.m["R"] = dy(1741); P.m["c_v1"] = 12; P.m["Gamma"] = dy(1434); };
      s.points = [](int tier) { std::vector<Pt> pts = grid({0, 1, 3}, tier ? 3 : 2, GENERIC_VALS); pts.push_back(far_point()); return pts; };
      s.reference = fs_ref; s.max_dev_quick = 1; s.max_dev_thorough = 2; s.pointwise_admissibility = true;
      e1_systems().push_back(s);
    }
    {
      System s; s.name = "fans_sa_steady_wall_bounded"; s.prop = "C05"; s.dim = 2;
      // the field construction (law of the wall, Crocco-Busemann) is only meaningful near its physical calibration:
      // base = library defaults perturbed by distinct factors, deviations are relative
      s.base_from_default = true;
      s.alphabet = [](const std::string& n, LD b, LD d) {
        std::vector<LD> v{d, dyround(b * 0.875L), dyround(b * 1.25L), -b, dyround(b * 3)};  // sign changes and large moves: admissibility is decided point by point
        if (n == "eta_v") { v.push_back(-4 * b); v.push_back(-16 * b); }  // wall-normal velocity towards the wall: vorticity changes sign in the outer region
        if (n == "c_v2" || n == "c_v3") { v.push_back(-b); v.push_back(-4 * b); v.push_back(-16 * b); v.push_back(4 * b); }  // drive the S~ switch to its other branch
        return v;
      };
      s.points = [](int tier) {
        // x along the plate, y from the viscous sublayer to well outside the boundary layer (y > x included: outer points are
        // admissible only while nu_sa = kappa u_tau y - alpha y^2 > 0, decided per (assignment, point))
        std::vector<Pt> pts; const long xs[] = {410, 717, 1331, 2150}, ys[] = {11, 51, 205, 410, 819, 1229};
        int nx = tier ? 4 : 3, ny = tier ? 6 : 5;
        for (int i = 0; i < nx; i++) for (int j = 0; j < ny; j++) pts.push_back(Pt(dy(xs[i]), dy(ys[j]), 0, 0));
        return pts;
      };
      s.reference = wall_ref; s.max_dev_quick = 1; s.max_dev_thorough = 2; s.pointwise_admissibility = true;
      s.name = "fans_sa_steady_wall_bounded";
      e1_systems().push_back(s);
      // second base: Reynolds number 64 times higher (mu/64), wall-normal lattice resolving the inner layer -- viscous sublayer,
      // buffer layer (where f_v2 < 0 and the S~ switch takes its second branch at the *calibrated* c_v2, c_v3), log layer
      System h = s; h.name = "fans_sa_steady_wall_bounded[high-Re]"; h.solution = "fans_sa_steady_wall_bounded";
      h.base = [](Params& P) { P.m["mu"] = dyround(P.m["mu"] / 64); };
      h.points = [](int tier) {
        std::vector<Pt> pts; const long xs[] = {410, 1331, 717, 246}, ys[] = {4, 16, 24, 32, 40, 48, 56, 64, 80, 128, 256, 12, 28, 36, 44, 52, 60, 72, 96, 192};
        int nx = tier ? 4 : 2, ny = tier ? 20 : 11;
        for (int i = 0; i < nx; i++) for (int j = 0; j < ny; j++) pts.push_back(Pt(dy(xs[i]), dy(ys[j]), 0, 0));
        return pts;
      };
      e1_systems().push_back(h);
    }
  }
} reg;
}  // namespace
