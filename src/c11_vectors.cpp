// C11 (vector side): the evaluators of the radiation solution are a function of the vectors last set -- of ALL their entries.
// Every configuration of 1..3 gaussians over the alphabet amp in {1, 1/2}, mean in {0.2, 0.9, 3}, stdev in {0.05, 0.001} (ordered: unsorted
// means, a narrow far gaussian in front of a contributing one ...) is installed with masa_set_vec in both registries; at three points
// source_u must equal the sum of the gaussians (computed here in long double), and exact_u must not depend on the order in which the
// gaussians are stored (the three vectors permuted consistently).
#include <masa.h>
#include <algorithm>
#include <cmath>
#include <cstdio>
#include <fcntl.h>
#include <unistd.h>
#include <vector>
using namespace MASA;
typedef long double LD;
static long n_cfg = 0, n_cmp = 0, n_bad = 0;
struct G { LD a, m, s; };
template <class S> static void install(const std::vector<G>& g) { std::vector<S> a, m, s; for (auto& q : g) { a.push_back((S)q.a); m.push_back((S)q.m); s.push_back((S)q.s); } masa_set_vec<S>("vec_amp", a); masa_set_vec<S>("vec_mean", m); masa_set_vec<S>("vec_stdev", s); }
template <class S> static void check(const std::vector<G>& g, const char* scal) {
  install<S>(g); n_cfg++;
  const LD xs[3] = {0.1L, 0.45L, 0.95L}; LD eps = sizeof(S) == 8 ? 1e-13L : 1e-16L;
  std::vector<G> rev(g.rbegin(), g.rend());
  for (LD x : xs) {
    LD ref = 0, mag = 0; for (auto& q : g) { LD sm = (LD)(S)q.s, mm = (LD)(S)q.m, aa = (LD)(S)q.a; LD t = aa * expl(-((LD)(S)x - mm) * ((LD)(S)x - mm) / (2 * sm * sm)); ref += t; mag += fabsl(t); }
    LD got = (LD)masa_eval_source_u<S>((S)x); n_cmp++;
    if (!(fabsl(got - ref) <= 64 * eps * (mag + 1e-300L) + 1e-300L)) { if (n_bad++ < 10) { printf("BAD radiation source_u<%s>(%Lg) = %.18Lg, sum of the %zu gaussians last set = %.18Lg; gaussians (amp,mean,stdev):", scal, x, got, g.size(), ref); for (auto& q : g) printf(" (%Lg,%Lg,%Lg)", q.a, q.m, q.s); printf("\n"); } }
  }
  if (g.size() > 1) {
    LD e1[3]; for (int k = 0; k < 3; k++) e1[k] = (LD)masa_eval_exact_u<S>((S)xs[k]);
    install<S>(rev);
    for (int k = 0; k < 3; k++) { LD e2 = (LD)masa_eval_exact_u<S>((S)xs[k]); n_cmp++; LD sc = 0; for (auto& q : g) sc += fabsl(q.a); if (!(fabsl(e1[k] - e2) <= 64 * eps * sc)) { if (n_bad++ < 10) printf("BAD radiation exact_u<%s>(%Lg) depends on the storage order of the gaussians: %.18Lg vs %.18Lg\n", scal, xs[k], e1[k], e2); } }
  }
}
int main() {
  { fflush(stdout); int dn = open("/dev/null", O_WRONLY), saved = dup(1); dup2(dn, 1); masa_init<double>("r", "radiation_integrated_intensity"); masa_init<LD>("r", "radiation_integrated_intensity"); fflush(stdout); dup2(saved, 1); close(saved); close(dn); }
  std::vector<G> alpha; for (LD a : {1.0L, 0.5L}) for (LD m : {0.2L, 0.9L, 3.0L}) for (LD s : {0.05L, 0.001L}) alpha.push_back({a, m, s});
  size_t K = alpha.size();
  for (size_t i = 0; i < K; i++) { std::vector<G> g{alpha[i]}; check<double>(g, "double"); check<LD>(g, "long double"); }
  for (size_t i = 0; i < K; i++) for (size_t j = 0; j < K; j++) { std::vector<G> g{alpha[i], alpha[j]}; check<double>(g, "double"); check<LD>(g, "long double"); }
  for (size_t i = 0; i < K; i++) for (size_t j = 0; j < K; j++) for (size_t k = 0; k < K; k++) { std::vector<G> g{alpha[i], alpha[j], alpha[k]}; check<double>(g, "double"); if ((i + j + k) % 3 == 0) check<LD>(g, "long double"); }
  printf("TOTAL %ld %ld %ld\n", n_cfg, n_cmp, n_bad);
  return 0;
}
