// C03 / C07 reference: navierstokes_4d_compressible_powerlaw (class comment in nsctpl_fwd.hpp).
// Each primitive phi in {rho,u,v,w,T} is the 7-term cosine form
//   a_0 cos(g_0 + f_0 t) + sum_{x,y,z} a_s cos(c_s + b_s 2pi s/L_s) cos(g_s + f_s t)
//   + sum_{xy,xz,yz} a_st cos(c_st + b_st 2pi s/L_s) cos(e_st + d_st 2pi t'/L_t') cos(g_st + f_st t)
// mu = mu_r (T/T_r)^beta, lambda = lambda_r mu/mu_r, kappa = kappa_r mu/mu_r, p = rho R T, e = R T/(gamma-1) + |u|^2/2.
#include "e1.hpp"

namespace {
RJ prim(const Params& P, const std::string& s, const RJ& X, const RJ& Y, const RJ& Z, const RJ& T) {
  auto p = [&](const char* pre, const char* suf) { return P(std::string(pre) + s + suf); };
  Q twopi = 2 * PIq;
  RJ kx = twopi / P("Lx") * X, ky = twopi / P("Ly") * Y, kz = twopi / P("Lz") * Z;
  return p("a_", "0") * cos(p("g_", "0") + p("f_", "0") * T) +
         p("a_", "x") * cos(p("c_", "x") + p("b_", "x") * kx) * cos(p("g_", "x") + p("f_", "x") * T) +
         p("a_", "y") * cos(p("c_", "y") + p("b_", "y") * ky) * cos(p("g_", "y") + p("f_", "y") * T) +
         p("a_", "z") * cos(p("c_", "z") + p("b_", "z") * kz) * cos(p("g_", "z") + p("f_", "z") * T) +
         p("a_", "xy") * cos(p("c_", "xy") + p("b_", "xy") * kx) * cos(p("e_", "xy") + p("d_", "xy") * ky) * cos(p("g_", "xy") + p("f_", "xy") * T) +
         p("a_", "xz") * cos(p("c_", "xz") + p("b_", "xz") * kx) * cos(p("e_", "xz") + p("d_", "xz") * kz) * cos(p("g_", "xz") + p("f_", "xz") * T) +
         p("a_", "yz") * cos(p("c_", "yz") + p("b_", "yz") * ky) * cos(p("e_", "yz") + p("d_", "yz") * kz) * cos(p("g_", "yz") + p("f_", "yz") * T);
}

bool pl_ref(const Params& P, const Pt& pt, std::vector<Expect>& out) {
  RJ X = RJ::var(pt.c[0], 0), Y = RJ::var(pt.c[1], 1), Z = RJ::var(pt.c[2], 2), T = RJ::var(pt.c[3], 3);
  RJ rho = prim(P, "rho", X, Y, Z, T), u = prim(P, "u", X, Y, Z, T), v = prim(P, "v", X, Y, Z, T), w = prim(P, "w", X, Y, Z, T), Tm = prim(P, "T", X, Y, Z, T);
  const Q margin = Q(1) / 4;
  if (rho.v < margin || Tm.v < margin) return false;
  if (Tm.v / P("T_r") <= 0) return false;
  RJ vel[3] = {u, v, w};
  Q R = P("R"), gam = P("gamma");
  RJ p = rho * R * Tm, e = R * Tm / (gam - 1) + (u * u + v * v + w * w) / 2;
  RJ mu = P("mu_r") * powc(Tm / P("T_r"), P("beta"));
  RJ lam = P("lambda_r") / P("mu_r") * mu, kap = P("kappa_r") / P("mu_r") * mu;
  VS qrho = d1(rho, 3), m[3], qe = d1(rho * e, 3);
  for (int i = 0; i < 3; i++) m[i] = d1(rho * vel[i], 3) + d1(p, i);
  RJ div = D(u, 0) + D(v, 1) + D(w, 2);
  for (int j = 0; j < 3; j++) {
    qrho = qrho + d1(rho * vel[j], j);
    qe = qe + d1(rho * vel[j] * e, j) + d1(p * vel[j], j);
    qe = qe - d1(kap * D(Tm, j), j);
    for (int i = 0; i < 3; i++) {
      m[i] = m[i] + d1(rho * vel[i] * vel[j], j);
      RJ tau = mu * (D(vel[i], j) + D(vel[j], i));
      if (i == j) tau = tau + lam * div;
      m[i] = m[i] - d1(tau, j);
      qe = qe - d1(tau * vel[i], j);
    }
  }
  const char* s = "SSSS";
  out.push_back(mk("C03", "source_rho", s, pt, V_XYZT, qrho));
  out.push_back(mk("C03", "source_rho_u", s, pt, V_XYZT, m[0]));
  out.push_back(mk("C03", "source_rho_v", s, pt, V_XYZT, m[1]));
  out.push_back(mk("C03", "source_rho_w", s, pt, V_XYZT, m[2]));
  out.push_back(mk("C03", "source_rho_e", s, pt, V_XYZT, qe));
  out.push_back(mk("C03", "exact_rho", s, pt, V_XYZT, val(rho)));
  out.push_back(mk("C03", "exact_u", s, pt, V_XYZT, val(u)));
  out.push_back(mk("C03", "exact_v", s, pt, V_XYZT, val(v)));
  out.push_back(mk("C03", "exact_w", s, pt, V_XYZT, val(w)));
  out.push_back(mk("C03", "exact_t", s, pt, V_XYZT, val(Tm)));
  out.push_back(mk("C03", "exact_p", s, pt, V_XYZT, val(p)));
  struct G { const char* fn; const RJ* f; } gs[] = {{"grad_rho", &rho}, {"grad_u", &u}, {"grad_v", &v}, {"grad_w", &w}, {"grad_t", &Tm}, {"grad_p", &p}};
  for (auto& g : gs)
    for (int i = -2; i <= 5; i++) {
      bool valid = i >= 1 && i <= 3;
      Expect ex = mk("C07", g.fn, "SSSSI", pt, V_XYZT, valid ? d1(*g.f, i - 1) : VS(0, 0));
      ex.idx = i; if (!valid) ex.mode = 2;  // NaN for the power-law solution
      out.push_back(ex);
    }
  return true;
}

struct Reg {
  Reg() {
    System s; s.name = "navierstokes_4d_compressible_powerlaw"; s.prop = "C03"; s.dim = 3; s.extra_props.push_back("C07");
    s.base = [](Params& P) {
      for (auto& n : P.names) {
        LD& v = P.m[n];
        bool rhoT = n.find("_rho") != std::string::npos || n.find("_T") == 1;
        if (n[0] == 'a' && rhoT) v = floorl(v * 0.5L * 1024) / 1024;  // amplitudes of rho and T: positivity margin
        if ((n[0] == 'g' || n[0] == 'f') && n.size() > 2 && n[n.size() - 1] == '0' && rhoT) v = floorl(v * 0.125L * 1024) / 1024;
      }
      P.m["a_rho0"] = 9; P.m["a_T0"] = 11;
      P.m["gamma"] = dy(1434); P.m["R"] = dy(2355); P.m["beta"] = dy(727); P.m["mu_r"] = dy(32); P.m["T_r"] = dy(7475);
      P.m["kappa_r"] = dy(44); P.m["lambda_r"] = -dy(19); P.m["Lx"] = dy(1741); P.m["Ly"] = dy(2150); P.m["Lz"] = dy(1331);
    };
    s.allow = [](const std::string& n, LD v) {
      if ((n == "Lx" || n == "Ly" || n == "Lz" || n == "mu_r" || n == "R") && v == 0) return false;
      if (n == "T_r" && v <= 0) return false;
      if (n == "gamma" && (v == 1 || v == 0)) return false;
      return true;
    };
    s.points = [](int tier) {
      std::vector<Pt> pts = grid({0, 1, 2, 3}, 2, GENERIC_VALS);
      if (tier) { std::vector<Pt> q; for (size_t i = 0; i < pts.size(); i += 5) q.push_back(pts[i]); pts = q; }  // 4-point sub-lattice for d=2
      pts.push_back(far_point());
      pts.push_back(Pt(0, 0, 0, 0, true));
      return pts;
    };
    // quick tier: amplitudes of one primitive field vanishing together (the full d<=2 ball is the thorough tier)
    s.zero_pair_group = [](const std::string& n) { if (n.size() > 2 && n[0] == 'a' && n[1] == '_') { size_t k = 2; std::string f; while (k < n.size() && n[k] != '0' && n[k] != 'x' && n[k] != 'y' && n[k] != 'z') f.push_back(n[k++]); return "amp_" + f; } return std::string(); };
    // structured configurations: primitive field f does not depend on the coordinates in D (all amplitudes of modes that involve a
    // direction of D are zero), for every field and every non-empty proper subset D of {x,y,z}; and: f is steady (all f_* zero)
    s.structured = [](const std::vector<std::string>& names) {
      std::vector<std::vector<std::pair<std::string, LD>>> out; const char* modes[] = {"x", "y", "z", "xy", "xz", "yz"};
      for (const char* f : {"rho", "u", "v", "w", "T"}) {
        for (int D = 1; D < 7; D++) {  // bit 0: x, bit 1: y, bit 2: z
          std::vector<std::pair<std::string, LD>> set;
          for (const char* m : modes) { bool hit = false; for (const char* c = m; *c; c++) if (D & (1 << (*c - 'x'))) hit = true; if (hit) set.push_back({std::string("a_") + f + m, 0.0L}); }
          out.push_back(set);
        }
        std::vector<std::pair<std::string, LD>> steady; for (const char* m : {"0", "x", "y", "z", "xy", "xz", "yz"}) steady.push_back({std::string("f_") + f + m, 0.0L}); out.push_back(steady);
      }
      return out;
    };
    // zero sets of any size among the seven mode amplitudes of one primitive field (all 128 subsets per field)
    s.zero_families = [](const std::vector<std::string>&) { std::vector<std::vector<std::string>> F; for (const char* f : {"rho", "u", "v", "w", "T"}) { std::vector<std::string> fam; for (const char* m : {"0", "x", "y", "z", "xy", "xz", "yz"}) fam.push_back(std::string("a_") + f + m); F.push_back(fam); } return F; };
    s.reference = pl_ref;
    s.max_dev_quick = 1; s.max_dev_thorough = 2;
    e1_systems().push_back(s);
  }
} reg;
}  // namespace
