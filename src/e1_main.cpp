// E1 engine: enumerate (assignment x point x scalar x evaluator), run the real library, compare with the
// float128 jet reference.  Output: JSON lines (merged by bin/check).
#include "e1.hpp"
#include "api_gen.hpp"
#include <masa.h>
#include <algorithm>
#include <chrono>
#include <cstring>
#include <fcntl.h>
#include <iostream>
#include <sstream>
#include <sys/wait.h>
#include <unistd.h>
using namespace MASA;

std::vector<System>& e1_systems() { static std::vector<System> v; return v; }
static std::map<std::string, long> g_counts;
void e1_count(const std::string& key) { g_counts[key]++; }

// ---------------------------------------------------------------------------------------------
static std::string g_capfile;
template <class F> static std::string capture(F f) {
  std::cout.flush(); fflush(stdout);
  int saved = dup(1);
  int fd = open(g_capfile.c_str(), O_RDWR | O_CREAT | O_TRUNC, 0600);
  dup2(fd, 1); f(); std::cout.flush(); fflush(stdout); dup2(saved, 1); close(saved);
  off_t n = lseek(fd, 0, SEEK_END); lseek(fd, 0, SEEK_SET);
  std::string s(n, '\0'); if (n > 0) { ssize_t r = read(fd, &s[0], n); (void)r; }
  close(fd); return s;
}
static std::vector<std::string> param_names() {
  std::string out = capture([] { masa_display_param<LD>(); });
  std::vector<std::string> names; std::istringstream is(out); std::string line;
  while (std::getline(is, line)) { size_t p = line.find(" is set to:"); if (p != std::string::npos) names.push_back(line.substr(0, p)); }
  return names;
}
static double now() { return std::chrono::duration<double>(std::chrono::steady_clock::now().time_since_epoch()).count(); }
static double frac(double x) { return x - floor(x); }
static std::string jesc(const std::string& s) { std::string r; for (char c : s) { if (c == '"' || c == '\\') r.push_back('\\'); if (c == '\n') { r += "\\n"; continue; } r.push_back(c); } return r; }

// callback alphabet (C06): K_eq(T) as plain function pointers in both scalar types; records the argument
static LD g_cb_arg_l; static double g_cb_arg_d; static int g_cb_calls_l, g_cb_calls_d;
template <class S> static S cbf(int k, S T) {
  switch (k) {
    case 0: return S(3.75);
    case 1: return S(2.75) + S(0.25) * T;
    case 2: return S(0.5) * std::pow(T, S(1.5)) * std::exp(-S(2.5) / T);
    case 4: return S(0.5) * std::pow(T, S(1.5)) * std::exp(-S(560) / T);  // Arrhenius-like with a large characteristic temperature: tiny values (1e-20 .. 1e-40 on the lattice)
    default: return S(1.25) + S(0.5) * T + S(0.125) * T * T;
  }
}
#define CB(k) \
  static double cbd##k(double T) { g_cb_arg_d = T; g_cb_calls_d++; return cbf<double>(k, T); } \
  static LD cbl##k(LD T) { g_cb_arg_l = T; g_cb_calls_l++; return cbf<LD>(k, T); }
CB(0) CB(1) CB(2) CB(3) CB(4)
static double (*const CBD[])(double) = {cbd0, cbd1, cbd2, cbd3, cbd4};
static LD (*const CBL[])(LD) = {cbl0, cbl1, cbl2, cbl3, cbl4};
Q e1_callback_ref(int k, Q T) {  // reference value of the callback alphabet (used by the chemistry model)
  switch (k) {
    case 0: return Q(3.75);
    case 1: return Q(2.75) + Q(0.25) * T;
    case 2: return Q(0.5) * powq(T, Q(1.5)) * expq(-Q(2.5) / T);
    case 4: return Q(0.5) * powq(T, Q(1.5)) * expq(-Q(560) / T);
    default: return Q(1.25) + Q(0.5) * T + Q(0.125) * T * T;
  }
}
int e1_callback_count() { return 5; }  // 0..3: O(1) callbacks used by the default-regime system; 4: the tiny Arrhenius-like one of the large-activation-energy regime

// ---------------------------------------------------------------------------------------------
static void boundary_points(const System& sys, const Params& P, const std::vector<Pt>& lattice, std::vector<Pt>& out);
struct Dev { int p; LD v; };
struct Assignment { int nd; Dev d[3]; int structured = -1; int fam = -1; unsigned mask = 0; };  // fam >= 0: every parameter of Ctx::families[fam] whose bit is set in mask is 0  // structured >= 0: index into Ctx::structured (any number of deviations)

struct Stat { long n = 0; double maxratio = 0; double maxratio_op = 0; long nviol = 0; long nknown = 0; };
struct Opts {
  std::string prop, tier = "quick", out, only, replay; int seed = 0, jobs = 16; double deadline = 1e9; double K = 65536.0;
  bool precision = false; int maxdev = -1; double Kdl = 0; bool ldfull = false;
};
static Opts O;
static const double U_D = ldexp(1.0, -53), U_LD = ldexp(1.0, -64);

static bool prop_selected(const std::string& p) {
  if (O.prop == "C09" || O.prop == "ALL") return true;
  return p == O.prop;
}

static void set_all(const Params& P) {
  for (auto& kv : P.m) { masa_set_param<LD>(kv.first, kv.second); masa_set_param<double>(kv.first, (double)kv.second); }
}

static Params generic_base(const std::vector<std::string>& names, int seed) {
  Params P; P.names = names; int i = 0;
  for (auto& n : names) {
    i++;
    double f = frac((i + 13 * (seed % 4)) * 0.6180339887498949);
    LD v = 0.55L + 0.9L * (LD)f;
    if (n.size() > 2 && n.substr(n.size() - 2) == "_0") v += 3;                                  // offsets dominate amplitudes
    else if (n[0] != 'a' && n.find('_') != std::string::npos) v *= 0.35L;                        // amplitudes small
    if (n == "Gamma" || n == "gamma") v = 1.3L + 0.2L * (LD)f;
    v = floorl(v * 1024.0L + 0.5L) / 1024.0L;                                                     // dyadic
    P.m[n] = v;
  }
  return P;
}

struct Ctx {
  const System* sys; Params base; std::vector<LD> dflt; std::vector<std::vector<LD>> alpha; std::vector<Pt> pts;
  std::vector<Assignment> as; int level_end[4]; size_t zero_pairs = 0, nstructured = 0, relation_pairs = 0, family_sets = 0, default_ball = 0; std::vector<std::vector<int>> families; std::vector<int> family_full; std::vector<std::vector<Dev>> structured; std::vector<std::string> namesB;
};

static std::string fmt_params(const Params& P) {
  std::string s = "{"; bool first = true;
  for (auto& n : P.names) { if (!first) s += ","; first = false; s += "\"" + jesc(n) + "\":\"" + ld2s(P.m.at(n)) + "\""; }
  return s + "}";
}
static std::string fmt_expect_call(const Expect& e) {
  std::string s = e.fn + "("; int k = 0; bool first = true;
  for (char c : e.sig) { if (!first) s += ","; first = false; if (c == 'S') { char b[48]; snprintf(b, sizeof b, "%.10Lg", e.a[k++]); s += b; } else if (c == 'I') s += std::to_string(e.idx); else s += "K_eq#" + std::to_string(e.cb); }
  return s + ")";
}

// ---------------------------------------------------------------------------------------------
// C20: specialising parameters maps one catalogue solution onto another (differential, two handles of one process)
struct EvalMap { const char* fnA; const char* sigA; const char* fnB; const char* sigB; int argB[4]; };
struct Reduction { std::string id, A, B; std::vector<std::pair<std::string, LD>> fixA; std::vector<EvalMap> map; };
static std::vector<Reduction> reductions() {
  std::vector<Reduction> R;
  auto zero = [](std::initializer_list<const char*> n) { std::vector<std::pair<std::string, LD>> v; for (auto x : n) v.push_back({x, 0.0L}); return v; };
  const int I0[4] = {0, 1, 2, 3};
  auto M = [&](const char* fa, const char* sa, const char* fb, const char* sb) { EvalMap m{fa, sa, fb, sb, {0, 1, 2, 3}}; (void)I0; return m; };
  // 3D -> 2D (all z amplitudes and the w field zero): result must not depend on z
  for (auto pr : {std::make_pair("euler_3d", "euler_2d"), std::make_pair("navierstokes_3d_compressible", "navierstokes_2d_compressible")}) {
    Reduction r; r.id = std::string(pr.first) + "->" + pr.second; r.A = pr.first; r.B = pr.second;
    r.fixA = zero({"rho_z", "u_z", "v_z", "p_z", "w_0", "w_x", "w_y", "w_z"});
    for (auto f : {"source_rho", "source_rho_u", "source_rho_v", "source_rho_e", "exact_rho", "exact_u", "exact_v", "exact_p"}) r.map.push_back(M(f, "SSS", f, "SS"));
    R.push_back(r);
  }
  // Navier-Stokes -> Euler (mu = k = 0)
  for (int d = 2; d <= 3; d++) {
    Reduction r; r.A = d == 2 ? "navierstokes_2d_compressible" : "navierstokes_3d_compressible"; r.B = d == 2 ? "euler_2d" : "euler_3d"; r.id = r.A + "->" + r.B;
    r.fixA = zero({"mu", "k"}); const char* sg = d == 2 ? "SS" : "SSS";
    for (auto f : {"source_rho", "source_rho_u", "source_rho_v", "source_rho_e"}) r.map.push_back(M(f, sg, f, sg));
    if (d == 3) r.map.push_back(M("source_rho_w", sg, "source_rho_w", sg));
    R.push_back(r);
  }
  // transient Euler -> steady Euler (temporal amplitudes zero): result must not depend on t
  { Reduction r; r.A = "euler_transient_1d"; r.B = "euler_1d"; r.id = r.A + "->" + r.B; r.fixA = zero({"rho_t", "u_t", "p_t"});
    for (auto f : {"source_rho", "source_rho_u", "source_rho_e", "exact_rho", "exact_u", "exact_p"}) r.map.push_back(M(f, "SS", f, "S")); R.push_back(r); }
  { Reduction r; r.A = "euler_transient_2d"; r.B = "euler_2d"; r.id = r.A + "->" + r.B; r.fixA = zero({"rho_t", "u_t", "v_t", "p_t"});
    r.map = {M("source_rho", "SSS", "source_rho", "SS"), M("source_u", "SSS", "source_rho_u", "SS"), M("source_v", "SSS", "source_rho_v", "SS"), M("source_e", "SSS", "source_rho_e", "SS"),
             M("exact_rho", "SSS", "exact_rho", "SS"), M("exact_u", "SSS", "exact_u", "SS"), M("exact_v", "SSS", "exact_v", "SS"), M("exact_p", "SSS", "exact_p", "SS")}; R.push_back(r); }
  { Reduction r; r.A = "euler_transient_3d"; r.B = "euler_3d"; r.id = r.A + "->" + r.B; r.fixA = zero({"rho_t", "u_t", "v_t", "w_t", "p_t"});
    r.map = {M("source_rho", "SSSS", "source_rho", "SSS"), M("source_u", "SSSS", "source_rho_u", "SSS"), M("source_v", "SSSS", "source_rho_v", "SSS"), M("source_w", "SSSS", "source_rho_w", "SSS"),
             M("source_e", "SSSS", "source_rho_e", "SSS"), M("exact_rho", "SSSS", "exact_rho", "SSS"), M("exact_u", "SSSS", "exact_u", "SSS"), M("exact_w", "SSSS", "exact_w", "SSS"), M("exact_p", "SSSS", "exact_p", "SSS")}; R.push_back(r); }
  // heat: unsteady -> steady (A_t = B_t = C_t = D_t = 0), var -> const (k_1 = k_2 = cp_1 = cp_2 = 0)
  for (int d = 1; d <= 3; d++) {
    std::string D = std::to_string(d), sst(d, 'S'), sun(d + 1, 'S');
    static std::vector<std::string> keep; keep.push_back(sst); keep.push_back(sun);
    for (const char* kind : {"const", "var"}) {
      Reduction r; r.A = "heateq_" + D + "d_unsteady_" + kind; r.B = "heateq_" + D + "d_steady_" + kind; r.id = r.A + "->" + r.B;
      r.fixA = zero({"A_t", "D_t"}); if (d >= 2) r.fixA.push_back({"B_t", 0.0L}); if (d >= 3) r.fixA.push_back({"C_t", 0.0L});
      EvalMap m{"source_t", strdup(sun.c_str()), "source_t", strdup(sst.c_str()), {0, 1, 2, 3}}; r.map.push_back(m); R.push_back(r);
    }
    for (const char* st : {"steady", "unsteady"}) {
      Reduction r; r.A = "heateq_" + D + "d_" + st + "_var"; r.B = "heateq_" + D + "d_" + st + "_const"; r.id = r.A + "->" + r.B;
      bool un = std::string(st) == "unsteady"; r.fixA = zero({"k_1", "k_2"}); if (un) { r.fixA.push_back({"cp_1", 0.0L}); r.fixA.push_back({"cp_2", 0.0L}); }
      const char* sg = strdup((un ? sun : sst).c_str()); EvalMap m{"source_t", sg, "source_t", sg, {0, 1, 2, 3}}; r.map.push_back(m); R.push_back(r);
    }
  }
  return R;
}
static const Reduction* g_red = 0;
static void set_two_handles(const Params& P, const std::vector<std::string>& namesB) {
  masa_select_mms<LD>("ra"); masa_select_mms<double>("ra");
  for (auto& kv : P.m) { masa_set_param<LD>(kv.first, kv.second); masa_set_param<double>(kv.first, (double)kv.second); }
  masa_select_mms<LD>("rb"); masa_select_mms<double>("rb");
  for (auto& n : namesB) { auto it = P.m.find(n); if (it == P.m.end()) continue; masa_set_param<LD>(n, it->second); masa_set_param<double>(n, (double)it->second); }
}

struct Runner {
  Ctx& C; FILE* out; std::map<std::string, Stat> stats; std::map<std::string, long> known; long states = 0, transitions = 0, comparisons = 0, inadmissible = 0, inadmissible_points = 0, done = 0, boundary_pts = 0, out_of_range = 0, far_double_ok = 0; bool cur_far = false;
  int samples_left; std::map<std::string, int> viol_budget;
  Runner(Ctx& c, FILE* o, int ns) : C(c), out(o), samples_left(ns) {}

  template <class S> bool check_one(const Expect& e, S lib, double u, const char* scal, const Params& P, int nd, Q& errq) {
    std::string key = C.sys->name + "|" + e.prop + "|" + e.fn + "/" + e.sig + "|" + scal;
    Stat& st = stats[key]; st.n++; comparisons++;
    bool bad = false; double ratio = 0, ratio_alt = -1; const char* why = "";
    Q lq = (Q)lib; errq = 0;
    // overflow: when the magnitudes that enter the value (S bounds every intermediate of the reference route) leave the range of the
    // scalar type, inf/NaN is what any implementation produces -- the element is outside the admissible set of that type
    if (e.mode == 0 && e.ref.s > (sizeof(S) == sizeof(double) ? Q(1e290) : (Q)1e4000L)) { out_of_range++; st.n--; comparisons--; return true; }
    if (e.special) { if (!(lib == lib) || std::isinf((LD)lib)) { bad = true; why = "non-finite at special point"; } }
    else if (e.mode == 1) { if (!(lq == e.ref.v)) { bad = true; why = "sentinel value expected"; } }
    else if (e.mode == 2) { if (lib == lib) { bad = true; why = "NaN expected"; } }
    else {
      if (!(lib == lib) || std::isinf((LD)lib)) { bad = true; why = "non-finite"; ratio = 1e300; }
      else {
        errq = qabs(lq - e.ref.v); Q sc = (Q)u * e.ref.s;
        // gradual underflow: below the normal range of the scalar type a correctly rounded result is off by up to half the smallest
        // subnormal (an exact value of 1e-892 is 0 in double); that absolute floor belongs to the scalar type, not to the library
        Q uflow = sizeof(S) == sizeof(double) ? (Q)std::numeric_limits<double>::denorm_min() : (Q)std::numeric_limits<long double>::denorm_min();
        if (errq <= uflow) errq = 0; else if (qabs(e.ref.v) < (sizeof(S) == sizeof(double) ? (Q)std::numeric_limits<double>::min() : (Q)std::numeric_limits<long double>::min())) errq -= uflow;
        ratio = (sc > 0) ? (double)(errq / sc) : (errq == 0 ? 0.0 : 1e300);
        if (!e.alt_id.empty()) {
          Q ea = qabs(lq - e.alt.v); Q sa = (Q)u * (e.alt.s > e.ref.s ? e.alt.s : e.ref.s);
          ratio_alt = (sa > 0) ? (double)(ea / sa) : (ea == 0 ? 0.0 : 1e300);
        }
        if (ratio > O.K) {
          bad = true; why = "differs from reference";
          if (ratio_alt >= 0 && ratio_alt <= O.K) { known[e.alt_id + "|" + C.sys->name + "|" + e.fn + "/" + e.sig + "|" + scal]++; st.nknown++; bad = false; ratio = ratio_alt; }
        } else if (ratio_alt >= 0 && ratio_alt < ratio) ratio = ratio_alt;  // discrepancy of a listed signature smaller than K here: roundoff is measured against the nearer model
        if (!bad && ratio > st.maxratio) st.maxratio = ratio;
        if (!bad && e.ref.t > 0) { double ro = (double)(errq / ((Q)u * e.ref.t)); if (ro > st.maxratio_op) st.maxratio_op = ro; }
      }
    }
    if (bad) {
      st.nviol++;
      int& b = viol_budget[key + "#" + std::to_string(nd)];
      if (b < 3) {
        b++;
        fprintf(out, "{\"k\":\"viol\",\"prop\":\"%s\",\"system\":\"%s\",\"fn\":\"%s\",\"sig\":\"%s\",\"scalar\":\"%s\",\"ndev\":%d,\"why\":\"%s\",\"call\":\"%s\",\"args\":[\"%s\",\"%s\",\"%s\",\"%s\"],\"idx\":%d,\"cb\":%d,\"lib\":\"%s\",\"ref\":\"%s\",\"S\":\"%s\",\"ratio\":%.6g,\"ratio_alt\":%.6g,\"K\":%.6g,\"mode\":%d,\"alt_id\":\"%s\",\"params\":%s}\n",
                e.prop.c_str(), C.sys->name.c_str(), e.fn.c_str(), e.sig.c_str(), scal, nd, why, jesc(fmt_expect_call(e)).c_str(),
                ld2s(e.a[0]).c_str(), ld2s(e.a[1]).c_str(), ld2s(e.a[2]).c_str(), ld2s(e.a[3]).c_str(), e.idx, e.cb,
                ld2s((LD)lib).c_str(), q2s(e.ref.v).c_str(), q2s(e.ref.s, 8).c_str(), ratio, ratio_alt, O.K, e.mode, e.alt_id.c_str(), fmt_params(P).c_str());
      }
    }
    return !bad;
  }

  void run_expect(const Expect& e, const Params& P, int nd) {
    const ApiEntry* ent = api_find(e.fn.c_str(), e.sig.c_str());
    if (!ent) { fprintf(out, "{\"k\":\"uncovered\",\"system\":\"%s\",\"fn\":\"%s\",\"sig\":\"%s\"}\n", C.sys->name.c_str(), e.fn.c_str(), e.sig.c_str()); return; }
    ApiArgs A; for (int k = 0; k < 4; k++) A.s[k] = e.a[k]; A.i = e.idx;
    A.fd = e.cb >= 0 ? CBD[e.cb] : 0; A.fl = e.cb >= 0 ? CBL[e.cb] : 0;
    g_cb_calls_d = g_cb_calls_l = 0;
    LD l = ent->cl(A); double d = ent->cd(A); transitions += 2;
    Q el, ed;
    bool okl = check_one<LD>(e, l, U_LD, O.ldfull ? "ld62" : "ld", P, nd, el);
    // far-regime assignments (one parameter three decades away): an intermediate may leave the double range although the value itself is
    // ordinary (0 * T^361).  The long double evaluation of the same code has 11 more exponent bits: when it is finite and right and the
    // double result is not finite, the element is outside the admissible set of double, not a defect.
    if (!O.ldfull && cur_far && okl && l == l && !std::isinf(l) && (!(d == d) || std::isinf(d))) { out_of_range++; }
    else if (!O.ldfull && cur_far && okl && e.mode == 0 && !e.special) {
      // far regime, long double right: the double value must be the same quantity (agree with the long double value to half its digits);
      // how many digits double keeps three decades away from the calibration is not a semantic question
      Q dq = qabs((Q)d - (Q)l), tol = Q(1e-7) * (qabs((Q)l) + e.ref.s * (Q)U_D * Q(65536));
      if (!(d == d) || dq > tol + Q(1e-7) * e.ref.s * Q(1e-9)) check_one<double>(e, d, U_D, "d", P, nd, ed); else far_double_ok++;
    }
    else if (!O.ldfull) check_one<double>(e, d, U_D, "d", P, nd, ed);
    if (e.has_cb_arg && !e.special) {  // the callback must have been called, with the exact temperature
      Expect a = e; a.fn = e.fn + "@callback_arg"; a.ref = e.cb_arg; a.alt_id.clear(); a.mode = 0;
      Q dummy;
      check_one<LD>(a, g_cb_calls_l > 0 ? g_cb_arg_l : (LD)NAN, U_LD, "ld", P, nd, dummy);
      if (!O.ldfull) check_one<double>(a, g_cb_calls_d > 0 ? g_cb_arg_d : (double)NAN, U_D, "d", P, nd, dummy);
    }
    if (samples_left > 0 && e.mode == 0 && !e.special) {
      samples_left--;
      fprintf(out, "{\"k\":\"sample\",\"system\":\"%s\",\"call\":\"%s\",\"ndev\":%d,\"lib_ld\":\"%s\",\"lib_d\":\"%.17g\",\"ref\":\"%s\",\"S\":\"%s\"}\n", C.sys->name.c_str(), jesc(fmt_expect_call(e)).c_str(), nd, ld2s(l).c_str(), d, q2s(e.ref.v, 24).c_str(), q2s(e.ref.s, 6).c_str());
    }
  }

  // C20: evaluate solution A (handle ra) and solution B (handle rb) alternately; |A - B| <= K u S with S from A's reference
  void run_reduction(const Params& P, std::vector<std::vector<Expect>>& ex, int nd) {
    set_two_handles(P, C.namesB);
    for (size_t i = 0; i < C.pts.size(); i++) {
      if (C.pts[i].special) continue;
      states += 2;
      for (auto& m : g_red->map) {
        const Expect* ea = 0; for (auto& e : ex[i]) if (e.fn == m.fnA && e.sig == m.sigA && e.cb < 0 && e.mode == 0) { ea = &e; break; }
        if (!ea) { fprintf(out, "{\"k\":\"uncovered\",\"system\":\"%s\",\"fn\":\"%s\",\"sig\":\"%s\"}\n", g_red->id.c_str(), m.fnA, m.sigA); continue; }
        const ApiEntry *A = api_find(m.fnA, m.sigA), *B = api_find(m.fnB, m.sigB);
        if (!A || !B) continue;
        ApiArgs aa, ab; for (int k = 0; k < 4; k++) { aa.s[k] = ea->a[k]; ab.s[k] = ea->a[m.argB[k]]; } aa.i = ab.i = 0; aa.fd = ab.fd = 0; aa.fl = ab.fl = 0;
        masa_select_mms<LD>("ra"); masa_select_mms<double>("ra"); LD al = A->cl(aa); double ad = A->cd(aa);
        masa_select_mms<LD>("rb"); masa_select_mms<double>("rb"); LD bl = B->cl(ab); double bd = B->cd(ab);
        transitions += 4;
        Expect e = *ea; e.prop = "C20"; e.fn = std::string(m.fnA) + "==" + g_red->B + ":" + m.fnB; e.alt_id.clear(); Q dummy;
        // the two library values must agree; each is also compared with A's reference value to keep the scale honest
        e.ref = VS((Q)bl, ea->ref.s); check_one<LD>(e, al, U_LD, "ld", P, nd, dummy);
        e.ref = VS((Q)bd, ea->ref.s); if (!O.ldfull) check_one<double>(e, ad, U_D, "d", P, nd, dummy);
      }
    }
  }

  // returns false if inadmissible
  bool run_assignment(const Assignment& a) {
    Params P = C.base; cur_far = false;
    if (a.structured < 0 && a.fam < 0) for (int k = 0; k < a.nd; k++) { LD b = C.base.m[C.base.names[a.d[k].p]]; if (b != 0 && (a.d[k].v == b * 1024 || a.d[k].v == b / 1024)) cur_far = true; }
    for (int k = 0; k < a.nd && a.structured < 0 && a.fam < 0; k++) P.m[P.names[a.d[k].p]] = a.d[k].v;
    if (a.structured >= 0) for (auto& dv : C.structured[a.structured]) P.m[P.names[dv.p]] = dv.v;
    if (a.fam >= 0) { const std::vector<int>& F = C.families[a.fam]; for (size_t k = 0; k < F.size(); k++) if (a.mask >> k & 1) P.m[P.names[F[k]]] = 0; }
    // long-double-only pass: every input gets a full 64-bit mantissa (the reference receives exactly that long double value; it is NOT
    // representable in double), so a double temporary holding nothing but inputs (Gamma - 1, a*pi/L ...) is no longer exact by accident
    if (O.ldfull) for (auto& kv : P.m) if (std::find(C.sys->frozen.begin(), C.sys->frozen.end(), kv.first) == C.sys->frozen.end()) kv.second = kv.second * 1.00000000012345678901L;  // rounded to long double: a full 64-bit mantissa
    if (C.sys->derive) C.sys->derive(P);
    std::vector<Pt> pts = C.pts; size_t nlattice = pts.size();
    if (!g_red) boundary_points(*C.sys, P, C.pts, pts);
    std::vector<std::vector<Expect>> ex(pts.size());
    size_t nskip = 0;
    for (size_t i = 0; i < pts.size(); i++) {
      if (!C.sys->reference(P, pts[i], ex[i])) { if (!C.sys->pointwise_admissibility && i < nlattice) { inadmissible++; return false; } ex[i].clear(); nskip++; inadmissible_points++; continue; }
      if (pts[i].special) for (auto& e : ex[i]) if (e.mode == 0) e.special = true;
    }
    if (nskip == pts.size()) { inadmissible++; return false; }
    if (g_red) { run_reduction(P, ex, a.nd); done++; return true; }
    set_all(P);
    for (size_t i = 0; i < pts.size(); i++) {
      if (ex[i].empty() && (C.sys->pointwise_admissibility || i >= nlattice)) continue;
      states += 2;  // (assignment, point) in two scalar types
      if (i >= nlattice) boundary_pts++;
      if (C.sys->apply_variant) C.sys->apply_variant(pts[i].variant);
      for (auto& e : ex[i]) if (prop_selected(e.prop)) run_expect(e, P, a.nd);
    }
    done++;
    return true;
  }
};

// boundary points: lattice points whose coordinate is bit-identical to a length parameter of the *current* assignment (x = L, y = Ly ...:
// the far side of the periodic box), the coordinate planes through the origin (x = 0, t = 0) and the far corner.  They depend on the
// assignment, so they are appended per assignment; a boundary point the reference rejects drops only that point.
static void boundary_points(const System& sys, const Params& P, const std::vector<Pt>& lattice, std::vector<Pt>& out) {
  if (sys.no_boundary_points) return;
  const Pt* b = 0; for (auto& p : lattice) if (!p.special) { b = &p; break; }
  if (!b) return;
  bool used[4] = {false, false, false, false}; for (auto& p : lattice) for (int j = 0; j < 4; j++) if (p.c[j] != 0) used[j] = true;
  const char* per[3] = {"Lx", "Ly", "Lz"}; LD len[3]; bool has[3]; int nlen = 0;
  for (int j = 0; j < 3; j++) { has[j] = false; if (!used[j]) continue; if (P.has(per[j])) { len[j] = P.m.at(per[j]); has[j] = true; } else if (P.has("L")) { len[j] = P.m.at("L"); has[j] = true; } if (has[j]) nlen++; }
  { int first = -1, nused = 0; for (int j = 0; j < 4; j++) if (used[j]) { if (first < 0) first = j; nused++; }
    if (nused > 1 && sys.singular_axis < 0) { Pt dg = *b; for (int j = 0; j < 4; j++) if (used[j]) dg.c[j] = b->c[first]; out.push_back(dg); } }  // the diagonal x = y = z = t (bit-identical coordinates)
  { Pt f2 = *b; const LD far2[4] = {29.125L, -21.625L, -36.375L, 24.875L}; for (int j = 0; j < 4; j++) f2.c[j] = used[j] ? far2[j] : b->c[j]; out.push_back(f2); }  // many periods away, |t| > 2 pi, mixed signs
  if (nlen == 0) return;
  Pt corner = *b; corner.variant = b->variant;
  for (int j = 0; j < 3; j++) if (has[j]) { Pt q = *b; q.c[j] = len[j]; out.push_back(q); if (j != sys.singular_axis) { Pt z = *b; z.c[j] = 0; out.push_back(z); } corner.c[j] = len[j]; }
  if (nlen > 1) out.push_back(corner);
  if (used[3]) { Pt z = *b; z.c[3] = 0; out.push_back(z); }
}

static void build_ctx(Ctx& C, const System& sys, int tier) {
  C.sys = &sys;
  if (g_red) {
    capture([&] { masa_init<LD>("rb", g_red->B); masa_init<double>("rb", g_red->B); });
    C.namesB = param_names();
    capture([&] { masa_init<LD>("ra", g_red->A); masa_init<double>("ra", g_red->A); });
  } else
    capture([&] { masa_init<LD>("e1", sys.sol()); masa_init<double>("e1", sys.sol()); });
  std::vector<std::string> names = param_names();
  C.dflt.clear();
  for (auto& n : names) C.dflt.push_back((LD)(double)masa_get_param<LD>(n));
  C.base = generic_base(names, O.seed);
  if (sys.base_from_default)
    for (size_t i = 0; i < names.size(); i++) C.base.m[names[i]] = dyround(C.dflt[i] * (1.0L + 0.07L * (LD)frac((i + 1 + 13 * (O.seed % 4)) * 0.6180339887498949)));
  if (sys.base) sys.base(C.base);
  if (g_red) for (auto& f : g_red->fixA) { if (!C.base.has(f.first)) { fprintf(stderr, "E1 HARNESS ERROR: reduction %s fixes unknown parameter %s\n", g_red->id.c_str(), f.first.c_str()); exit(2); } C.base.m[f.first] = f.second; }
  if (sys.derive) sys.derive(C.base);
  C.pts = sys.points(tier);
  if (O.ldfull) for (auto& p : C.pts) for (int k = 0; k < 4; k++) p.c[k] = p.c[k] * 1.00000000043210987654L;
  C.alpha.assign(names.size(), {});
  for (size_t i = 0; i < names.size(); i++) {
    if (std::find(sys.frozen.begin(), sys.frozen.end(), names[i]) != sys.frozen.end()) continue;
    if (g_red) { bool fixed = false; for (auto& f : g_red->fixA) if (f.first == names[i]) fixed = true; if (fixed) continue; }
    LD b = C.base.m[names[i]];
    std::vector<LD> cand = {C.dflt[i], 0.0L, -b, 2 * b + 0.125L};
    // near-singular value for the ratio of specific heats: 1/(Gamma-1) terms become 100x larger and dominate the scale, so that
    // whatever is wrong only in them (precision of Gamma-1, a dropped Gamma factor) is no longer a small share of S
    if (names[i] == "Gamma" || names[i] == "gamma") cand.push_back(1.0L + 1.0L / 256);
    // far regime of a single parameter: three decades up and down (semantic properties only: at K = 8 the expanded closed forms of the
    // library and the operator form of the reference may legitimately cancel differently there)
    if (O.prop != "C09" && !O.ldfull) { cand.push_back(b * 1024); cand.push_back(b / 1024); }
    if (sys.alphabet) cand = sys.alphabet(names[i], b, C.dflt[i]);
    for (LD v : cand) {
      if (v == b) continue;
      if (!(v == v) || std::isinf(v)) continue;
      if (std::find(C.alpha[i].begin(), C.alpha[i].end(), v) != C.alpha[i].end()) continue;
      if (sys.allow && !sys.allow(names[i], v)) continue;
      C.alpha[i].push_back(v);
    }
  }
  int maxdev = O.maxdev >= 0 ? O.maxdev : (tier == 0 ? sys.max_dev_quick : sys.max_dev_thorough);
  C.as.clear();
  Assignment a0; a0.nd = 0; C.as.push_back(a0); C.level_end[0] = 1;
  int n = names.size();
  if (maxdev >= 1) for (int i = 0; i < n; i++) for (LD v : C.alpha[i]) { Assignment a; a.nd = 1; a.d[0] = {i, v}; C.as.push_back(a); }
  C.level_end[1] = C.as.size();
  // the far-regime values (x1024, /1024) are single deviations only: combined with each other or with further deviations they reach
  // regimes where the double evaluation of the library's expanded closed forms legitimately loses more digits than the operator form
  std::vector<std::vector<LD>> near(n);
  for (int i = 0; i < n; i++) { LD b = C.base.m[names[i]]; for (LD v : C.alpha[i]) if (sys.alphabet || b == 0 || (v != b * 1024 && v != b / 1024)) near[i].push_back(v); }
  if (maxdev >= 2) for (int i = 0; i < n; i++) for (int j = i + 1; j < n; j++) for (LD v : near[i]) for (LD w : near[j]) { Assignment a; a.nd = 2; a.d[0] = {i, v}; a.d[1] = {j, w}; C.as.push_back(a); }
  C.level_end[2] = C.as.size();
  if (maxdev >= 3) for (int i = 0; i < n; i++) for (int j = i + 1; j < n; j++) for (int k = j + 1; k < n; k++) for (LD v : near[i]) for (LD w : near[j]) for (LD x : near[k]) { Assignment a; a.nd = 3; a.d[0] = {i, v}; a.d[1] = {j, w}; a.d[2] = {k, x}; C.as.push_back(a); }
  C.level_end[3] = C.as.size();
  // zero pairs (not part of the deviation-ball bound that is reported as completed)
  if (maxdev < 2 && !g_red) {
    std::function<std::string(const std::string&)> grp = sys.zero_pair_group;
    if (!grp && n <= 50) grp = [](const std::string&) { return std::string("all"); };
    if (grp) for (int i = 0; i < n; i++) for (int j = i + 1; j < n; j++) {
      std::string gi = grp(names[i]), gj = grp(names[j]); if (gi.empty() || gi != gj) continue;
      if (std::find(C.alpha[i].begin(), C.alpha[i].end(), 0.0L) == C.alpha[i].end() || std::find(C.alpha[j].begin(), C.alpha[j].end(), 0.0L) == C.alpha[j].end()) continue;
      Assignment a; a.nd = 2; a.d[0] = {i, 0.0L}; a.d[1] = {j, 0.0L}; C.as.push_back(a);
    }
  }
  C.zero_pairs = C.as.size() - C.level_end[3];
  // relation assignments: one parameter set equal (and opposite) to the base value of another one -- shortcuts that compare two
  // parameters, common sub-expressions that are only common when two inputs coincide.  Same grouping as the zero pairs; quick tier:
  // p_j := +-b_i for i < j, thorough tier: both directions.  Not part of the deviation-ball bound either (the value is outside the alphabet).
  if (!g_red && !sys.alphabet) {  // a system with its own alphabet defines its admissible neighbourhood itself (relative moves around a physical calibration)
    std::function<std::string(const std::string&)> grp = sys.zero_pair_group;
    if (!grp && n <= 50) grp = [](const std::string&) { return std::string("all"); };
    if (grp) for (int i = 0; i < n; i++) for (int j = 0; j < n; j++) {
      if (i == j || (tier == 0 && j < i)) continue;
      if (C.alpha[i].empty() || C.alpha[j].empty()) continue;  // frozen / fixed parameters
      std::string gi = grp(names[i]), gj = grp(names[j]); if (gi.empty() || gi != gj) continue;
      for (LD sgn : {1.0L, -1.0L}) { LD v = sgn * C.base.m[names[i]]; if (v == C.base.m[names[j]]) continue; if (sys.allow && !sys.allow(names[j], v)) continue; Assignment a; a.nd = 1; a.d[0] = {j, v}; C.as.push_back(a); C.relation_pairs++; }
    }
  }
  // zero sets inside a family of like parameters (all amplitudes X_d of a Roy-type field, all their frequencies a_Xd): a shortcut
  // guarded by a conjunction of "== 0" tests on a set Z is exposed by any zero set S with Z inside S that keeps the parameters W of the
  // dropped term alive.  Explored: S = F minus R for every R with |R| <= 2 (reaches every Z whose W has at most two members of F);
  // every subset of F when F is small (quick: |F| <= 10, thorough: |F| <= 15, except in the C09 passes).  Full point lattice, all evaluators.
  {
    std::vector<std::vector<std::string>> fams;
    if (sys.zero_families) fams = sys.zero_families(names);
    else {
      std::vector<std::string> amp, frq;
      for (auto& nm : names) {
        size_t u = nm.rfind('_'); if (u == std::string::npos || u == 0 || nm.compare(0, 2, "a_") == 0) continue;
        std::string squeezed; for (char ch : nm) if (ch != '_') squeezed.push_back(ch);
        for (const std::string& f : {"a_" + nm.substr(0, u) + nm.substr(u + 1), "a_" + nm, "a_" + squeezed})  // rho_x -> a_rhox, rho_N_x -> a_rho_N_x, nu_sa_x -> a_nusax
          if (std::find(names.begin(), names.end(), f) != names.end()) { amp.push_back(nm); frq.push_back(f); break; }
      }
      if (amp.size() >= 3) { fams.push_back(amp); fams.push_back(frq); }
      else if (!sys.alphabet && names.size() <= 24) fams.push_back(names);  // small systems without the Roy naming scheme: every zeroable parameter is one family
    }
    for (auto& fam : fams) {
      std::vector<int> F;
      for (auto& nm : fam) { auto it = std::find(names.begin(), names.end(), nm); if (it == names.end()) { fprintf(stderr, "E1 HARNESS ERROR: zero family names unknown parameter %s\n", nm.c_str()); exit(2); } int i = it - names.begin(); if (std::find(C.alpha[i].begin(), C.alpha[i].end(), 0.0L) != C.alpha[i].end()) F.push_back(i); }
      if (F.size() < 3 || F.size() > 31) continue;
      int k = F.size(); unsigned all = (1u << k) - 1; int fi = C.families.size(); C.families.push_back(F);
      bool full = k <= ((tier == 1 && O.prop != "C09") ? 15 : 10); C.family_full.push_back(full);
      auto push = [&](unsigned m) { Assignment a; a.nd = std::min(3, __builtin_popcount(m)); a.fam = fi; a.mask = m; C.as.push_back(a); C.family_sets++; };
      if (full) { for (unsigned m = 1; m <= all; m++) if (__builtin_popcount(m) >= 3) push(m); }
      else {
        push(all);
        for (int i = 0; i < k; i++) push(all & ~(1u << i));
        if (k <= 24) for (int i = 0; i < k; i++) for (int j = i + 1; j < k; j++) push(all & ~(1u << i) & ~(1u << j));
        if (tier == 1 && O.prop != "C09" && k <= 24) for (int i = 0; i < k; i++) for (int j = i + 1; j < k; j++) for (int l = j + 1; l < k; l++) push(all & ~(1u << i) & ~(1u << j) & ~(1u << l));
      }
    }
  }
  // default-centred ball: the library's own defaults (round numbers, integer wave numbers, zeros) with at most one parameter moved to its
  // generic base value -- guards that test a property of the default values (integer-valued, equal, zero) see their "normal" case here,
  // while one parameter breaks the pattern.  Frozen parameters keep their base value (derive() runs afterwards).
  if (!g_red && !sys.base_from_default && !sys.no_default_ball) {
    std::vector<Dev> dv0; for (int i = 0; i < n; i++) if (std::find(sys.frozen.begin(), sys.frozen.end(), names[i]) == sys.frozen.end()) { LD v = C.dflt[i]; if (sys.allow && !sys.allow(names[i], v)) v = C.base.m[names[i]]; dv0.push_back({i, v}); }
    for (int k = -1; k < (int)dv0.size(); k++) {
      std::vector<Dev> dv = dv0; if (k >= 0) { if (dv[k].v == C.base.m[names[dv[k].p]]) continue; dv[k].v = C.base.m[names[dv[k].p]]; }
      Assignment a; a.nd = 3; a.structured = C.structured.size(); C.structured.push_back(dv); C.as.push_back(a); C.default_ball++;
    }
  }
  if (sys.structured && !g_red) {
    for (auto& set : sys.structured(names)) {
      std::vector<Dev> dv; for (auto& kv : set) { auto it = std::find(names.begin(), names.end(), kv.first); if (it == names.end()) { fprintf(stderr, "E1 HARNESS ERROR: structured assignment names unknown parameter %s\n", kv.first.c_str()); exit(2); } dv.push_back({(int)(it - names.begin()), kv.second}); }
      Assignment a; a.nd = std::min<int>(3, dv.size()); a.structured = C.structured.size(); C.structured.push_back(dv); C.as.push_back(a); C.nstructured++;
    }
  }
}


static int run_system(const System& sys0, int tier, FILE* out, double t_end) {
  System sys = sys0; if (g_red) { sys.name = g_red->id; sys.prop = "C20"; }
  Ctx C; build_ctx(C, sys, tier);
  // base must be admissible: hard harness error otherwise
  { std::vector<Expect> ex; size_t bad = 0; for (auto& p : C.pts) if (!sys.reference(C.base, p, ex)) bad++;
    if (bad > (sys.pointwise_admissibility ? C.pts.size() / 2 : 0)) { fprintf(stderr, "E1 HARNESS ERROR: base assignment inadmissible at %zu of %zu points for %s\n", bad, C.pts.size(), sys.name.c_str()); return 2; } }
  int W = std::max(1, std::min<int>(O.jobs, (int)C.as.size()));
  std::vector<pid_t> pids; std::vector<std::string> files;
  fflush(out);
  for (int w = 0; w < W; w++) {
    std::string f = O.out + "." + sys.name + ".w" + std::to_string(w); files.push_back(f);
    pid_t pid = fork();
    if (pid == 0) {
      FILE* fo = fopen(f.c_str(), "w"); g_capfile = O.out + ".cap." + std::to_string(w);
      { int dn = open("/dev/null", O_WRONLY); dup2(dn, 1); close(dn); }
      g_counts.clear();
      Runner R(C, fo, w == 0 ? 6 : 0);
      int stop_level = 99; size_t last = 0; bool timed_out = false;
      for (size_t i = w; i < C.as.size(); i += W) {
        if (now() > t_end) { timed_out = true; last = i; break; }
        R.run_assignment(C.as[i]);
      }
      (void)stop_level;
      for (auto& kv : R.stats) fprintf(fo, "{\"k\":\"stat\",\"key\":\"%s\",\"n\":%ld,\"maxratio\":%.6g,\"maxratio_op\":%.6g,\"nviol\":%ld,\"nknown\":%ld}\n", kv.first.c_str(), kv.second.n, kv.second.maxratio, kv.second.maxratio_op, kv.second.nviol, kv.second.nknown);
      for (auto& kv : g_counts) fprintf(fo, "{\"k\":\"count\",\"system\":\"%s\",\"key\":\"%s\",\"n\":%ld}\n", sys.name.c_str(), kv.first.c_str(), kv.second);
      for (auto& kv : R.known) fprintf(fo, "{\"k\":\"known\",\"key\":\"%s\",\"n\":%ld}\n", kv.first.c_str(), kv.second);
      fprintf(fo, "{\"k\":\"worker\",\"system\":\"%s\",\"states\":%ld,\"transitions\":%ld,\"comparisons\":%ld,\"inadmissible\":%ld,\"inadmissible_points\":%ld,\"boundary_point_elements\":%ld,\"out_of_range\":%ld,\"done\":%ld,\"timed_out\":%s,\"stopped_at\":%zu}\n", sys.name.c_str(), R.states, R.transitions, R.comparisons, R.inadmissible, R.inadmissible_points, R.boundary_pts, R.out_of_range, R.done, timed_out ? "true" : "false", timed_out ? last : C.as.size());
      fclose(fo); unlink(g_capfile.c_str()); _exit(0);
    }
    pids.push_back(pid);
  }
  int rc = 0;
  for (int w = 0; w < W; w++) {
    int st; waitpid(pids[w], &st, 0);
    if (!WIFEXITED(st) || WEXITSTATUS(st) != 0) { fprintf(out, "{\"k\":\"crash\",\"system\":\"%s\",\"worker\":%d,\"status\":%d}\n", sys.name.c_str(), w, st); rc = 2; }
    FILE* fi = fopen(files[w].c_str(), "r"); if (fi) { char buf[65536]; size_t n; while ((n = fread(buf, 1, sizeof buf, fi)) > 0) fwrite(buf, 1, n, out); fclose(fi); unlink(files[w].c_str()); }
  }
  std::string al = "{"; bool first = true; long nalpha = 0;
  for (size_t i = 0; i < C.alpha.size(); i++) nalpha += C.alpha[i].size();
  (void)first; (void)al;
  std::string famdesc; for (size_t f = 0; f < C.families.size(); f++) { famdesc += (f ? "; " : "") + std::string(C.family_full[f] ? "all subsets of {" : "complements of <=2(3) of {"); for (int i : C.families[f]) famdesc += C.base.names[i] + " "; famdesc += "}"; }
  fprintf(out, "{\"k\":\"system\",\"system\":\"%s\",\"prop\":\"%s\",\"nparams\":%zu,\"alphabet\":%ld,\"points\":%zu,\"assignments\":%zu,\"level_end\":[%d,%d,%d,%d],\"zero_pairs\":%zu,\"relation_pairs\":%zu,\"structured\":%zu,\"family_sets\":%zu,\"default_ball\":%zu,\"families\":\"%s\",\"base\":%s}\n", sys.name.c_str(), sys.prop.c_str(), C.base.names.size(), nalpha, C.pts.size(), C.as.size(), C.level_end[0], C.level_end[1], C.level_end[2], C.level_end[3], C.zero_pairs, C.relation_pairs, C.nstructured, C.family_sets, C.default_ball, famdesc.c_str(), fmt_params(C.base).c_str());
  return rc;
}

// replay: one expectation on one explicit assignment (text file written by bin/check)
static int do_replay() {
  FILE* f = fopen(O.replay.c_str(), "r"); if (!f) { perror("replay"); return 2; }
  char key[256], val[256]; std::string system, fn, sig, scal, prop; LD a[4] = {0, 0, 0, 0}; int idx = 0, cb = -1; Params P;
  while (fscanf(f, "%255s %255s", key, val) == 2) {
    std::string k = key;
    if (k == "system") system = val; else if (k == "fn") fn = val; else if (k == "sig") sig = (std::string(val) == "-" ? "" : val); else if (k == "scalar") scal = val; else if (k == "prop") prop = val;
    else if (k == "idx") idx = atoi(val); else if (k == "cb") cb = atoi(val);
    else if (k[0] == 'a' && k.size() == 2 && isdigit(k[1])) a[k[1] - '0'] = strtold(val, 0);
    else if (k.rfind("p:", 0) == 0) { P.names.push_back(k.substr(2)); P.m[k.substr(2)] = strtold(val, 0); }
  }
  fclose(f);
  const System* sys = 0; for (auto& s : e1_systems()) if (s.name == system) sys = &s;
  if (!sys) { fprintf(stderr, "unknown system %s\n", system.c_str()); return 2; }
  capture([&] { masa_init<LD>("e1", sys->sol()); masa_init<double>("e1", sys->sol()); });
  set_all(P);
  Pt p; // find expectations at the point that has these args: rebuild point from args via the system's reference at a synthetic point
  std::vector<Expect> ex; bool found = false; int rc = 0;
  // try all 24 assignments of args to jet variables is overkill: reference() is evaluated at points of both tiers and matched on args
  for (int tier = 0; tier < 2 && !found; tier++) { std::vector<Pt> lat = sys->points(tier), all = lat; boundary_points(*sys, P, lat, all); for (auto& q : all) {
    ex.clear(); if (!sys->reference(P, q, ex)) continue;
    for (auto& e : ex) if (e.fn == fn && e.sig == sig && e.idx == idx && e.cb == cb && e.prop == prop && e.a[0] == a[0] && e.a[1] == a[1] && e.a[2] == a[2] && e.a[3] == a[3]) {
      found = true; p = q;
      const ApiEntry* ent = api_find(fn.c_str(), sig.c_str()); ApiArgs A; for (int k = 0; k < 4; k++) A.s[k] = e.a[k]; A.i = e.idx; A.fd = cb >= 0 ? CBD[cb] : 0; A.fl = cb >= 0 ? CBL[cb] : 0;
      LD lib = scal == "ld" ? ent->cl(A) : (LD)ent->cd(A); double u = scal == "ld" ? U_LD : U_D;
      Q err = qabs((Q)lib - e.ref.v); double ratio = e.ref.s > 0 ? (double)(err / ((Q)u * e.ref.s)) : (err == 0 ? 0 : 1e300);
      bool bad;
      if (e.special) bad = !(lib == lib) || std::isinf(lib); else if (e.mode == 1) bad = !((Q)lib == e.ref.v); else if (e.mode == 2) bad = (lib == lib); else bad = !(lib == lib) || ratio > O.K;
      printf("replay %s %s/%s scalar=%s lib=%s ref=%s S=%s ratio=%.6g K=%.6g -> %s\n", system.c_str(), fn.c_str(), sig.c_str(), scal.c_str(), ld2s(lib).c_str(), q2s(e.ref.v, 24).c_str(), q2s(e.ref.s, 6).c_str(), ratio, O.K, bad ? "VIOLATES" : "ok");
      rc = bad ? 1 : 0; break;
    }
    if (found) break;
  } }
  if (!found) { fprintf(stderr, "replay: expectation not found on the lattice\n"); return 2; }
  return rc;
}

int main(int argc, char** argv) {
  for (int i = 1; i < argc; i++) {
    std::string a = argv[i]; auto nx = [&]() { return std::string(argv[++i]); };
    if (a == "--prop") O.prop = nx(); else if (a == "--tier") O.tier = nx(); else if (a == "--seed") O.seed = atoi(nx().c_str());
    else if (a == "--out") O.out = nx(); else if (a == "--only") O.only = nx(); else if (a == "--jobs") O.jobs = atoi(nx().c_str());
    else if (a == "--deadline") O.deadline = atof(nx().c_str()); else if (a == "--K") O.K = atof(nx().c_str()); else if (a == "--replay") O.replay = nx();
    else if (a == "--maxdev") O.maxdev = atoi(nx().c_str());
    else if (a == "--ldfull") O.ldfull = true;
    else if (a == "--list") { for (auto& s : e1_systems()) printf("%s %s\n", s.prop.c_str(), s.name.c_str()); return 0; }
  }
  if (O.out.empty()) O.out = "/tmp/e1.out";
  g_capfile = O.out + ".cap";
  if (!O.replay.empty()) { int rc = do_replay(); unlink(g_capfile.c_str()); return rc; }
  int tier = O.tier == "thorough" ? 1 : 0;
  FILE* out = fopen(O.out.c_str(), "w"); if (!out) { perror("out"); return 2; }
  double t_end = now() + O.deadline; int rc = 0;
  if (O.prop == "C20") {
    static std::vector<Reduction> reds = reductions();
    for (auto& r : reds) {
      if (!O.only.empty() && r.id != O.only) continue;
      const System* sa = 0; for (auto& s : e1_systems()) if (s.name == r.A) sa = &s;
      if (!sa) { fprintf(stderr, "E1 HARNESS ERROR: no reference system %s\n", r.A.c_str()); return 2; }
      fflush(out); g_red = &r;
      pid_t pid = fork();
      if (pid == 0) { int rr = run_system(*sa, tier, out, t_end); fflush(out); unlink(g_capfile.c_str()); _exit(rr); }
      int st; waitpid(pid, &st, 0);
      if (!WIFEXITED(st) || WEXITSTATUS(st) != 0) { rc = 2; fprintf(out, "{\"k\":\"crash\",\"system\":\"%s\",\"worker\":-1,\"status\":%d}\n", r.id.c_str(), st); }
    }
    fclose(out); return rc;
  }
  // one child per system so that every system starts from a fresh registry
  for (auto& s : e1_systems()) {
    if (!O.only.empty() && s.name != O.only) continue;
    bool sel = (O.prop == "C09" || O.prop == "ALL" || s.prop == O.prop || std::find(s.extra_props.begin(), s.extra_props.end(), O.prop) != s.extra_props.end());
    if (!sel) continue;
    fflush(out);
    pid_t pid = fork();
    if (pid == 0) { int r = run_system(s, tier, out, t_end); fflush(out); unlink(g_capfile.c_str()); _exit(r); }
    int st; waitpid(pid, &st, 0);
    if (!WIFEXITED(st) || WEXITSTATUS(st) != 0) { rc = 2; fprintf(out, "{\"k\":\"crash\",\"system\":\"%s\",\"worker\":-1,\"status\":%d}\n", s.name.c_str(), st); }
  }
  fclose(out);
  return rc;
}
