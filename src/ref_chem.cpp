// C06 reference: euler_chem_1d, two-species (N, N2) thermally perfect reacting Euler equations in 1D.
//   [N] = rho_N/M_N, [N2] = rho_N2/(2 M_N);  rate = (k_fN [N] + k_fN2 [N2]) ([N2] - [N]^2/K_eq(T)),  w_N = 2 M_N rate = -w_N2
//   Q_rho_s = d(rho_s u)/dx - w_s ;  sum_s Q_rho_s = d(rho u)/dx for every K_eq
//   p = (rho_N R_N + rho_N2 R_N2) T ;  E = rho_N (3/2 R_N T + h0_N) + rho_N2 (5/2 R_N2 T + e_vib + h0_N2) + rho u^2/2
//   e_vib = R_N2 theta_v/(exp(theta_v/T) - 1) ;  Q_rho_u = d(rho u^2 + p)/dx ;  Q_rho_e = d((E + p) u)/dx
// Admissibility: R_N2 = R_N/2 (the library hard-codes M_N2 = 2 M_N; see DESIGN.md C06).
#include "e1.hpp"

namespace {
bool chem_ref(const Params& P, const Pt& p, std::vector<Expect>& out) {
  RJ X = RJ::var(p.c[0], 0);
  Q L = P("L");
  auto ph = [&](const char* a) { return P(a) * PIq * X / L; };
  RJ rN = RJ(P("rho_N_0")) + P("rho_N_x") * sin(ph("a_rho_N_x")), rN2 = RJ(P("rho_N2_0")) + P("rho_N2_x") * cos(ph("a_rho_N2_x"));
  RJ u = RJ(P("u_0")) + P("u_x") * sin(ph("a_ux")), T = RJ(P("T_0")) + P("T_x") * cos(ph("a_Tx"));
  const Q m = Q(1) / 16;
  if (!(rN.v > m && rN2.v > m && T.v > Q(1) / 2)) return false;
  Q M = P("M_N"), Rg = P("R"), th = P("theta_v_N2");
  if (M == 0 || Rg == 0 || th == 0) return false;
  RJ rho = rN + rN2;
  Q RN = P("R_N"), RN2 = P("R_N2");
  RJ pr = rN * RN * T + rN2 * RN2 * T;
  RJ ex = exp(th / T);
  if (qabs(ex.v - 1) < Q(1) / 1024) return false;
  RJ evib = RN2 * th / (ex - 1);
  RJ E = rN * (Q(3) / 2 * RN * T + P("h0_N")) + rN2 * (Q(5) / 2 * RN2 * T + evib + P("h0_N2")) + rho * u * u / 2;
  out.push_back(mk("C06", "source_rho_u", "S", p, V_X, d1(rho * u * u + pr, 0)));
  out.push_back(mk("C06", "source_rho_e", "S", p, V_X, d1((E + pr) * u, 0)));
  out.push_back(mk("C06", "exact_t", "S", p, V_X, val(T)));
  out.push_back(mk("C06", "exact_u", "S", p, V_X, val(u)));
  out.push_back(mk("C06", "exact_rho", "S", p, V_X, val(rho)));
  out.push_back(mk("C06", "exact_rho_N", "S", p, V_X, val(rN)));
  out.push_back(mk("C06", "exact_rho_N2", "S", p, V_X, val(rN2)));
  RJ Tv = RJ(T.v); Tv.mv = T.mv;  // values only below (rates are algebraic in the fields)
  RJ kfN = P("Cf1_N") * powc(Tv, P("etaf1_N")) * exp(-P("Ea_N") / Rg / Tv);
  RJ kfN2 = P("Cf1_N2") * powc(Tv, P("etaf1_N2")) * exp(-P("Ea_N2") / Rg / Tv);
  RJ rNv = RJ(rN.v), rN2v = RJ(rN2.v); rNv.mv = rN.mv; rN2v.mv = rN2.mv;
  for (int k = 0; k < e1_callback_count(); k++) {
    Q K = e1_callback_ref(k, T.v);
    if (!(K > Q(1) / 64)) return false;
    RJ Kj = RJ(K);
    RJ cN = rNv / M, cN2 = rN2v / (2 * M);
    RJ rate = (kfN * cN + kfN2 * cN2) * (cN2 - cN * cN / Kj);
    VS w = val(2 * M * rate);
    Expect eN = mk("C06", "source_rho_N", "SF", p, V_X, d1(rN * u, 0) - w); eN.cb = k; eN.cb_arg = val(T); eN.has_cb_arg = true; out.push_back(eN);
    Expect eN2 = mk("C06", "source_rho_N2", "SF", p, V_X, d1(rN2 * u, 0) + w); eN2.cb = k; eN2.cb_arg = val(T); eN2.has_cb_arg = true; out.push_back(eN2);
  }
  return true;
}

struct Reg {
  Reg() {
    System s; s.name = "euler_chem_1d"; s.prop = "C06"; s.dim = 1;
    s.base = [](Params& P) { P.m["T_0"] = dy(9523); P.m["R"] = dy(3174); };
    s.frozen.push_back("R_N2");
    s.derive = [](Params& P) { P.m["R_N2"] = P.m["R_N"] / 2; };
    s.allow = [](const std::string& n, LD v) { return !((n == "L" || n == "R" || n == "M_N" || n == "theta_v_N2") && v == 0); };
    s.points = [](int tier) {
      std::vector<Pt> pts; const long xs[] = {320, 1104, 2252, -410, 3700, 7000};
      for (int i = 0; i < (tier ? 6 : 4); i++) pts.push_back(Pt(dy(xs[i]), 0, 0, 0));
      pts.push_back(Pt(0, 0, 0, 0, true));
      return pts;
    };
    s.reference = chem_ref; s.max_dev_quick = 2; s.max_dev_thorough = 3;
    e1_systems().push_back(s);
  }
} reg;
}  // namespace
