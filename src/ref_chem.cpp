// C06 reference: euler_chem_1d, two-species (N, N2) thermally perfect reacting Euler equations in 1D.
//   [N] = rho_N/M_N, [N2] = rho_N2/(2 M_N);  rate = (k_fN [N] + k_fN2 [N2]) ([N2] - [N]^2/K_eq(T)),  w_N = 2 M_N rate = -w_N2
//   Q_rho_s = d(rho_s u)/dx - w_s ;  sum_s Q_rho_s = d(rho u)/dx for every K_eq
//   p = (rho_N R_N + rho_N2 R_N2) T ;  E = rho_N (3/2 R_N T + h0_N) + rho_N2 (5/2 R_N2 T + e_vib + h0_N2) + rho u^2/2
//   e_vib = R_N2 theta_v/(exp(theta_v/T) - 1) ;  Q_rho_u = d(rho u^2 + p)/dx ;  Q_rho_e = d((E + p) u)/dx
// Admissibility: R_N2 = R_N/2 (the library hard-codes M_N2 = 2 M_N; see DESIGN.md C06).
#include "e1.hpp"

namespace {
bool chem_ref(bool arrhenius, const Params& P, const Pt& p, std::vector<Expect>& out) {
  RJ X = RJ::var(p.c[0], 0);
  Q L = P("L");
  auto ph = [&](const char* a) { return P(a) * PIq * X / L; };
  RJ rN = RJ(P("rho_N_0")) + P("rho_N_x") * sin(ph("a_rho_N_x")), rN2 = RJ(P("rho_N2_0")) + P("rho_N2_x") * cos(ph("a_rho_N2_x"));
  RJ u = RJ(P("u_0")) + P("u_x") * sin(ph("a_ux")), T = RJ(P("T_0")) + P("T_x") * cos(ph("a_Tx"));
  const Q m = Q(1) / 16;
  if (!(rN.v > m && rN2.v > m && T.v > Q(1) / 2)) return false;
  Q M = P("M_N"), Rg = P("R"), th = P("theta_v_N2");
  if (M == 0 || Rg == 0 || th == 0) return false;
  if (arrhenius && !(Rg > 0 && P("Ea_N") >= 0 && P("Ea_N2") >= 0)) return false;  // exp(+Ea/(R T)) with Ea/(R T) ~ 60..100 and a K_eq of 1e-30 leaves the double range: not a regime anyone can mean
  RJ rho = rN + rN2;
  Q RN = P("R_N"), RN2 = P("R_N2");
  RJ pr = rN * RN * T + rN2 * RN2 * T;
  RJ ex = exp(th / T);
  if (qabs(ex.v - 1) < Q(1) / 1024) return false;
  RJ evib = RN2 * th / (ex - 1);
  RJ E = rN * (Q(3) / 2 * RN * T + P("h0_N")) + rN2 * (Q(5) / 2 * RN2 * T + evib + P("h0_N2")) + rho * u * u / 2;
  out.push_back(mk("C06", "source_rho_u", "S", p, V_X, d1(rho * u * u + pr, 0)));
  out.push_back(mk("C06", "source_rho_e", "S", p, V_X, d1((E + pr) * u, 0)));
  out.push_back(mk("C06", "exact_t", "S", p, V_X, val(T)));
  out.push_back(mk("C06", "exact_u", "S", p, V_X, val(u)));
  out.push_back(mk("C06", "exact_rho", "S", p, V_X, val(rho)));
  out.push_back(mk("C06", "exact_rho_N", "S", p, V_X, val(rN)));
  out.push_back(mk("C06", "exact_rho_N2", "S", p, V_X, val(rN2)));
  RJ Tv = RJ(T.v); Tv.mv = T.mv;  // values only below (rates are algebraic in the fields)
  RJ kfN = P("Cf1_N") * powc(Tv, P("etaf1_N")) * exp(-P("Ea_N") / Rg / Tv);
  RJ kfN2 = P("Cf1_N2") * powc(Tv, P("etaf1_N2")) * exp(-P("Ea_N2") / Rg / Tv);
  RJ rNv = RJ(rN.v), rN2v = RJ(rN2.v); rNv.mv = rN.mv; rN2v.mv = rN2.mv;
  for (int k = (arrhenius ? 4 : 0); k < (arrhenius ? 5 : 4); k++) {
    Q K = e1_callback_ref(k, T.v);
    if (!(arrhenius ? K > 0 : K > Q(1) / 64)) return false;
    // the callback runs in working precision on the library's T: its value carries the propagated error of T and its own roundoff
    // (for the tiny Arrhenius-like callback exp(-560/T) alone amplifies one rounding of its argument 40..100 times)
    RJ Kj;
    switch (k) {
      case 0: Kj = RJ(Q(3.75)); break;
      case 1: Kj = RJ(Q(2.75)) + RJ(Q(0.25)) * Tv; break;
      case 2: Kj = RJ(Q(0.5)) * powc(Tv, Q(1.5)) * exp(-(RJ(Q(2.5)) / Tv)); break;
      case 4: Kj = RJ(Q(0.5)) * powc(Tv, Q(1.5)) * exp(-(RJ(Q(560)) / Tv)); break;
      default: Kj = RJ(Q(1.25)) + RJ(Q(0.5)) * Tv + RJ(Q(0.125)) * Tv * Tv; break;
    }
    if (qabs(Kj.v - K) > qabs(K) * Q(1e-30)) { fprintf(stderr, "E1 HARNESS ERROR: callback %d: jet value differs from e1_callback_ref\n", k); exit(2); }
    if (arrhenius) for (Q v : {kfN.v, kfN2.v, K}) if (!(qabs(v) < Q(1e200)) || (v != 0 && qabs(v) < Q(1e-200))) return false;  // intermediates outside the double range
    RJ cN = rNv / M, cN2 = rN2v / (2 * M);
    RJ rate = (kfN * cN + kfN2 * cN2) * (cN2 - cN * cN / Kj);
    VS w = val(2 * M * rate);
    Expect eN = mk("C06", "source_rho_N", "SF", p, V_X, d1(rN * u, 0) - w); eN.cb = k; eN.cb_arg = val(T); eN.has_cb_arg = true; out.push_back(eN);
    Expect eN2 = mk("C06", "source_rho_N2", "SF", p, V_X, d1(rN2 * u, 0) + w); eN2.cb = k; eN2.cb_arg = val(T); eN2.has_cb_arg = true; out.push_back(eN2);
  }
  return true;
}

struct Reg {
  Reg() {
    System s; s.name = "euler_chem_1d"; s.prop = "C06"; s.dim = 1;
    s.base = [](Params& P) { P.m["T_0"] = dy(9523); P.m["R"] = dy(3174); };
    s.frozen.push_back("R_N2");
    s.derive = [](Params& P) { P.m["R_N2"] = P.m["R_N"] / 2; };
    s.allow = [](const std::string& n, LD v) { return !((n == "L" || n == "R" || n == "M_N" || n == "theta_v_N2") && v == 0); };
    s.points = [](int tier) {
      std::vector<Pt> pts; const long xs[] = {320, 1104, 2252, -410, 3700, 7000};
      for (int i = 0; i < (tier ? 6 : 4); i++) pts.push_back(Pt(dy(xs[i]), 0, 0, 0));
      pts.push_back(Pt(0, 0, 0, 0, true));
      return pts;
    };
    s.reference = [](const Params& P, const Pt& p, std::vector<Expect>& out) { return chem_ref(false, P, p, out); }; s.max_dev_quick = 2; s.max_dev_thorough = 3;
    e1_systems().push_back(s);
    // second base: large activation energies (the regime of real dissociating nitrogen: Ea/(R T) between 15 and 100), temperature
    // varying by a factor 2 over the lattice, and the caller's K_eq(T) Arrhenius-like and as tiny as the forward rates, so that
    // k_f/K_eq -- a quotient of two numbers near 1e-25 -- is O(1): whatever treats a small rate as negligible is exposed
    System h = s; h.name = "euler_chem_1d[arrhenius]"; h.solution = "euler_chem_1d";
    h.base = [](Params& P) { P.m["T_0"] = dy(9523); P.m["R"] = dy(3174); P.m["T_x"] = dy(3584); P.m["Ea_N2"] = dyround(60 * P.m["R"] * P.m["T_0"]); P.m["Ea_N"] = dyround(19 * P.m["R"] * P.m["T_0"]); };
    h.points = [](int tier) { std::vector<Pt> pts; const long xs[] = {320, 1104, 2252, -410, 3700, 7000, 1600, 2900}; for (int i = 0; i < (tier ? 8 : 6); i++) pts.push_back(Pt(dy(xs[i]), 0, 0, 0)); return pts; };
    h.reference = [](const Params& P, const Pt& p, std::vector<Expect>& out) { return chem_ref(true, P, p, out); }; h.max_dev_quick = 1; h.max_dev_thorough = 2;
    e1_systems().push_back(h);
  }
} reg;
}  // namespace
