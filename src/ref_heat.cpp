// C01 reference: Q_T = rho*cp(T)*T_t - div(k(T) grad T) on
// T = cos(A_x x + A_t t) cos(B_y y + B_t t) cos(C_z z + C_t t) cos(D_t t)   (steady: no t dependence, no D_t factor)
#include "e1.hpp"

namespace {
struct HeatCfg { const char* name; int dim; bool unsteady, var, has_exact; };
const HeatCfg CFG[] = {
    {"heateq_1d_steady_const", 1, 0, 0, 1},   {"heateq_2d_steady_const", 2, 0, 0, 1},   {"heateq_3d_steady_const", 3, 0, 0, 1},
    {"heateq_1d_steady_var", 1, 0, 1, 0},     {"heateq_2d_steady_var", 2, 0, 1, 0},     {"heateq_3d_steady_var", 3, 0, 1, 0},
    {"heateq_1d_unsteady_const", 1, 1, 0, 0}, {"heateq_2d_unsteady_const", 2, 1, 0, 1}, {"heateq_3d_unsteady_const", 3, 1, 0, 0},
    {"heateq_1d_unsteady_var", 1, 1, 1, 0},   {"heateq_2d_unsteady_var", 2, 1, 1, 0},   {"heateq_3d_unsteady_var", 3, 1, 1, 0}};

bool heat_ref(const HeatCfg& c, const Params& P, const Pt& p, std::vector<Expect>& out) {
  RJ X = RJ::var(p.c[0], 0), Y = RJ::var(p.c[1], 1), Z = RJ::var(p.c[2], 2), Tt = RJ::var(p.c[3], 3);
  RJ T;
  if (c.unsteady) {
    T = cos(P("A_x") * X + P("A_t") * Tt) * cos(P("D_t") * Tt);
    if (c.dim >= 2) T = T * cos(P("B_y") * Y + P("B_t") * Tt);
    if (c.dim >= 3) T = T * cos(P("C_z") * Z + P("C_t") * Tt);
  } else {
    T = cos(P("A_x") * X);
    if (c.dim >= 2) T = T * cos(P("B_y") * Y);
    if (c.dim >= 3) T = T * cos(P("C_z") * Z);
  }
  RJ k = RJ(P("k_0")), cp = RJ(P.opt("cp_0", 0));
  if (c.var) {
    k = k + P("k_1") * T + P("k_2") * T * T;
    if (c.unsteady) cp = cp + P("cp_1") * T + P("cp_2") * T * T;
  }
  VS q;
  if (c.unsteady) q = q + val(P("rho") * cp * D(T, 3));
  for (int i = 0; i < c.dim; i++) q = q - d1(k * D(T, i), i);
  // signature strings: steady dim n -> n S; unsteady -> n+1 S (coordinates then t)
  static const int* VARS_ST[] = {V_X, V_XY, V_XYZ};
  static const int* VARS_UN[] = {V_XT, V_XYT, V_XYZT};
  const int* vars = c.unsteady ? VARS_UN[c.dim - 1] : VARS_ST[c.dim - 1];
  std::string sig(c.dim + (c.unsteady ? 1 : 0), 'S');
  out.push_back(mk("C01", "source_t", sig.c_str(), p, vars, q));
  if (c.has_exact) out.push_back(mk("C01", "exact_t", sig.c_str(), p, vars, val(T)));
  return true;
}

struct Reg {
  Reg() {
    for (const HeatCfg& c : CFG) {
      System s; s.name = c.name; s.prop = "C01"; s.dim = c.dim;
      s.points = [c](int tier) {
        std::vector<int> vars; for (int i = 0; i < c.dim; i++) vars.push_back(i); if (c.unsteady) vars.push_back(3);
        std::vector<Pt> pts = grid(vars, tier ? 3 : 2, GENERIC_VALS);
        // special points: origin / t = 0 (finite values required)
        pts.push_back(far_point());
        pts.push_back(Pt(0, 0, 0, 0, true)); pts.push_back(Pt(dy(320), 0, dy(288), 0, true));
        return pts;
      };
      s.reference = [c](const Params& P, const Pt& p, std::vector<Expect>& out) { return heat_ref(c, P, p, out); };
      s.max_dev_quick = 2; s.max_dev_thorough = 3;
      e1_systems().push_back(s);
    }
  }
} reg;
}  // namespace
