// E3: catalogue x API product enumerator (C13 name resolution, C14 catalogue integrity, C15 fail-safe stubs).
// Links the stock library of the tree under test; expectations that move with the code (catalogue, capability set D)
// are read from files produced from that same tree (masa_printid, e3_caps).
#include "api_gen.hpp"
#include <masa.h>
#include <algorithm>
#include <cmath>
#include <cstdio>
#include <cstring>
#include <fcntl.h>
#include <iostream>
#include <map>
#include <set>
#include <fenv.h>
#include <signal.h>
#include <sstream>
#include <thread>
#include <string>
#include <sys/wait.h>
#include <unistd.h>
#include <vector>
using namespace MASA;
typedef long double LD;
namespace MASA { int masa_map(std::string*); }

static std::string g_capfile;
template <class F> static std::string capture(F f) {
  std::cout.flush(); fflush(stdout);
  int saved = dup(1); int fd = open(g_capfile.c_str(), O_RDWR | O_CREAT | O_TRUNC, 0600);
  dup2(fd, 1);
  try { f(); } catch (...) { std::cout.flush(); fflush(stdout); dup2(saved, 1); close(saved); close(fd); throw; }
  std::cout.flush(); fflush(stdout); dup2(saved, 1); close(saved);
  off_t n = lseek(fd, 0, SEEK_END); lseek(fd, 0, SEEK_SET); std::string s(n, '\0'); if (n > 0) { ssize_t r = read(fd, &s[0], n); (void)r; } close(fd); return s;
}
static std::string jesc(const std::string& s) { std::string r; for (unsigned char c : s) { if (c == '"' || c == '\\') { r.push_back('\\'); r.push_back(c); } else if (c == '\n') r += "\\n"; else if (c < 32 || c >= 127) { char b[8]; snprintf(b, 8, "\\u%04x", c); r += b; } else r.push_back(c); } return r; }
static std::vector<std::string> catalogue(bool ld) {
  std::string out = capture([&] { if (ld) masa_printid<LD>(); else masa_printid<double>(); });
  std::vector<std::string> names; std::istringstream is(out); std::string l; bool in = false;
  while (std::getline(is, l)) { if (l.find("*---") != std::string::npos) { if (in) break; in = true; continue; } if (in && !l.empty()) names.push_back(l); }
  return names;
}
static std::vector<std::string> param_names_d() {
  std::string out = capture([] { masa_display_param<double>(); });
  std::vector<std::string> names; std::istringstream is(out); std::string line;
  while (std::getline(is, line)) { size_t p = line.find(" is set to:"); if (p != std::string::npos) names.push_back(line.substr(0, p)); }
  return names;
}
static std::string ref_normal(const std::string& s) { std::string r; for (unsigned char c : s) { if (c == '-' || c == ' ') continue; r.push_back((char)std::tolower(c)); } return r; }

static FILE* OUT;
static long n_states = 0, n_trans = 0, n_valid = 0;
static int n_viol_written = 0;
static void viol(const char* prop, const std::string& what, const std::string& detail_json) {
  if (n_viol_written++ < 200) fprintf(OUT, "{\"k\":\"viol\",\"prop\":\"%s\",\"what\":\"%s\",%s}\n", prop, jesc(what).c_str(), detail_json.c_str());
}

// ------------------------------------------------------------------------------------------------ C13
static const char* RUNS[] = {"-", " ", "--", "  ", "- ", " -", "---"};
static void c13_strings(const std::vector<std::string>& cat, int maxsites, int maxflips, bool nonnames, std::vector<std::string>& out) {
  std::set<std::string> seen;
  auto add = [&](const std::string& s) { if (seen.insert(s).second) out.push_back(s); };
  for (auto& n : cat) {
    add(n);
    int L = n.size();
    for (int i = 0; i <= L; i++) for (auto r : RUNS) { std::string s = n; s.insert(i, r); add(s); }
    if (maxsites >= 2) for (int i = 0; i <= L; i++) for (int j = i; j <= L; j++) for (auto r1 : RUNS) for (auto r2 : RUNS) { std::string s = n; s.insert(j, r2); s.insert(i, r1); add(s); }
    std::string up = n; for (auto& c : up) c = std::toupper(c); add(up);
    for (int i = 0; i < L; i++) { std::string s = n; s[i] = std::toupper(s[i]); add(s); if (maxflips >= 2) for (int j = i + 1; j < L; j++) { std::string t = s; t[j] = std::toupper(t[j]); add(t); } }
    // mixed: upper case with one separator run
    for (int i = 0; i <= L; i += 3) { std::string s = up; s.insert(i, "- "); add(s); }
    if (nonnames) {
      for (int i = 0; i < L; i++) { std::string s = n; s.erase(i, 1); add(s); }
      for (int i = 0; i < L; i++) for (char c : {'_', 'x', '1'}) { if (n[i] == c) continue; std::string s = n; s[i] = c; add(s); }
      for (int i = 0; i <= L; i++) for (char c : {'_', 'x', '1'}) { std::string s = n; s.insert(i, 1, c); add(s); }
      for (int i = 0; i < L; i++) if (n[i] == '_') { std::string s = n; s[i] = '-'; add(s); s[i] = ' '; add(s); }
      add(""); add("-"); add(" "); add("- -");
      // names wrapped in a matching pair of delimiters (quotes, brackets), with and without separators next to them: not names
      for (const char* pr : {"''", "\"\"", "``", "()", "[]", "{}", "<>", "||", "__", "xx"}) { std::string a2(1, pr[0]), b2(1, pr[1]); add(a2 + n + b2); add(a2 + " " + n + " " + b2); add(" " + a2 + n + b2 + " "); add(a2 + up + b2); add(a2 + n); add(n + b2); }
      // every single-bit flip of every character (a comparison that masks one bit -- the ASCII case bit, say -- for non-letters too)
      for (int i = 0; i < L; i++) for (int bit = 0; bit < 8; bit++) { std::string t2 = n; t2[i] = (char)((unsigned char)t2[i] ^ (1u << bit)); add(t2); }
      // paddings of length <= 3 over {blank, dash, c} that contain the special byte c at least once, behind and in front of the name
      // (a byte that is not a separator makes the string a non-name wherever it stands, also inside a run of separators)
      for (char c : {'\t', '\n', '\r', '\0', '\x7f'}) {
        const char alpha[3] = {' ', '-', c};
        for (int len = 1; len <= 3; len++) { int total = 1; for (int q = 0; q < len; q++) total *= 3;
          for (int code = 0; code < total; code++) { std::string pad; int x = code; bool has = false; for (int q = 0; q < len; q++) { char ch = alpha[x % 3]; x /= 3; pad.push_back(ch); if (ch == c) has = true; } if (!has) continue; add(n + pad); add(pad + n); add(up + pad); } }
      }
      // same length, two adjacent characters changed so that a linear character hash (k = m*k + c) is unchanged: c1 + d, c2 - m*d for the
      // usual multipliers; and adjacent transpositions (same multiset of characters)
      for (int i = 0; i + 1 < L; i++) {
        { std::string t2 = n; std::swap(t2[i], t2[i + 1]); if (t2 != n) add(t2); }
        for (int m : {1, 2, 31, 33, 37, 131}) for (int d1 : {-3, -2, -1, 1, 2, 3}) {
          int c1 = (unsigned char)n[i] + d1, c2 = (unsigned char)n[i + 1] - m * d1;
          auto okc = [](int c) { return c > 32 && c < 127 && c != '-' && !(c >= 'A' && c <= 'Z'); };
          if (!okc(c1) || !okc(c2)) continue;
          std::string t2 = n; t2[i] = (char)c1; t2[i + 1] = (char)c2; add(t2);
        }
      }
      // bytes that are neither letters nor separators, NUL included (std::string carries it; the C wrappers cannot): in front, inside, behind
      for (char c : {'\0', '\t', '\n', '\r', '\x7f', '\xe9', '.', '/'}) {
        for (int i : {0, L / 2, L}) { std::string s = n; s.insert(i, 1, c); add(s); }
        add(n + std::string(1, c) + "_transient"); add(up + std::string(1, c)); add("- " + n + std::string(1, c)); add(n + std::string(1, c) + "- ");
      }
    }
  }
  // long strings: every total length 1..600 (and the neighbours of 1024, 4096, 65536) reached by padding with one separator kind in front,
  // inside, behind or spread one by one between the characters -- buffer-size boundaries of any normaliser; names and a one-letter-longer non-name
  if (nonnames) {
    std::vector<std::string> pick; if (!cat.empty()) { pick.push_back(cat.front()); pick.push_back(cat[cat.size() / 2]); pick.push_back(cat.back()); }
    std::vector<int> lens; for (int t = 1; t <= 600; t++) lens.push_back(t); for (int c : {1024, 4096, 65536}) for (int dlt = -2; dlt <= 2; dlt++) lens.push_back(c + dlt);
    for (auto& n0 : pick) for (int extra = 0; extra < 2; extra++) {
      std::string n = extra ? n0 + "x" : n0; int L = n.size();
      for (int total : lens) { int pad = total - L; if (pad <= 0) continue;
        for (char sep : {' ', '-'}) {
          add(std::string(pad, sep) + n); add(n + std::string(pad, sep)); { std::string t2 = n; t2.insert(L / 2, std::string(pad, sep)); add(t2); }
          if (total <= 600) { std::string sp; int q = pad / (L - 1 > 0 ? L - 1 : 1), r = pad - q * (L - 1 > 0 ? L - 1 : 1); for (int i = 0; i < L; i++) { sp.push_back(n[i]); if (i + 1 < L) sp.append(q + (i < r ? 1 : 0), sep); } add(sp); }
        }
        if (total <= 600) { std::string mix; for (int i = 0; i < pad; i++) mix.push_back(i % 3 == 2 ? '-' : ' '); add(mix.substr(0, pad / 2) + n + mix.substr(pad / 2)); }
      }
    }
  }
}
static std::string list_obs() { return capture([] { masa_list_mms<double>(); }); }
static int mode_c13(int tier, bool exceptions) {
  std::vector<std::string> cat = catalogue(false);
  std::set<std::string> catset(cat.begin(), cat.end());
  std::vector<std::string> strs; c13_strings(cat, tier ? 2 : 2, tier ? 2 : 1, true, strs);
  long accepts = 0, rejects = 0; std::set<std::string> outcomes;
  // (a) the normaliser itself, on every string
  for (auto& s : strs) {
    std::string t = s; n_trans++; n_states++;
    try { MASA::masa_map(&t); } catch (...) { viol("C13", "masa_map threw an exception on a string of length " + std::to_string(s.size()) + " (\"" + s.substr(0, 60) + "...\")", "\"input\":\"" + jesc(s.substr(0, 200)) + "\",\"level\":\"masa_map\",\"kind\":\"exception\""); continue; }
    std::string r = ref_normal(s); n_valid++;
    if (catset.count(r)) accepts++; else rejects++;
    if (t != r) viol("C13", "masa_map(\"" + s + "\") = \"" + t + "\", reference normal form is \"" + r + "\"", "\"input\":\"" + jesc(s) + "\",\"lib\":\"" + jesc(t) + "\",\"ref\":\"" + jesc(r) + "\",\"level\":\"masa_map\"");
  }
  fprintf(OUT, "{\"k\":\"c13a\",\"strings\":%zu,\"normalise_to_catalogue\":%ld,\"not_names\":%ld}\n", strs.size(), accepts, rejects);
  // (b) through masa_init in the exception build: accept <=> normal form is a catalogue name; reject => throws 1, registry unchanged
  if (exceptions) {
    std::vector<std::string> s1; c13_strings(cat, tier ? 1 : 1, 1, true, s1);
    // plus a deterministic slice of the two-site decorations
    for (size_t i = 0; i < strs.size(); i += (tier ? 7 : 61)) s1.push_back(strs[i]);
    const char* handles[] = {"h", "My-Handle 1", " lead", "UPPER", "a--b"};
    capture([] { masa_init<double>("anchor", "euler_1d"); masa_set_param<double>("u_0", 7.5); });
    long k = 0, acc = 0, rej = 0;
    for (auto& s : s1) {
      std::string handle = handles[k++ % 5]; std::string r = ref_normal(s); bool expect_ok = catset.count(r) != 0;
      capture([] { masa_select_mms<double>("anchor"); });
      std::string before = list_obs(); int thrown = 0; bool threw = false; std::string out;
      try { out = capture([&] { masa_init<double>(handle, s); }); } catch (int e) { threw = true; thrown = e; } catch (...) { threw = true; thrown = -999; }
      n_trans++; n_states++; n_valid++;
      if (expect_ok) {
        acc++;
        std::string nm; masa_get_name<double>(&nm);
        std::string after = list_obs();
        bool listed = after.find(handle + " : " + r) != std::string::npos;
        if (!threw && s != r) {  // decorated spelling accepted: the handle just used must not have become a spelling of anything
          bool threw2 = false; int code2 = 0; try { capture([&] { masa_init<double>("zz-after", handle); }); } catch (int e) { threw2 = true; code2 = e; } catch (...) { threw2 = true; code2 = -999; } n_trans++; n_valid++;
          if (!catset.count(ref_normal(handle)) && (!threw2 || code2 != 1)) viol("C13", "after masa_init(\"" + handle + "\",\"" + s + "\"), masa_init(\"zz-after\",\"" + handle + "\") is accepted although \"" + handle + "\" is not a catalogue name", "\"input\":\"" + jesc(handle) + "\",\"after\":\"" + jesc(s) + "\",\"level\":\"masa_init\",\"kind\":\"handle-as-name\"");
        }
        if (threw || nm != r || !listed)
          viol("C13", "masa_init(\"" + handle + "\",\"" + s + "\") should select " + r + (threw ? " but failed" : (" but selected " + nm)), "\"input\":\"" + jesc(s) + "\",\"handle\":\"" + jesc(handle) + "\",\"ref\":\"" + jesc(r) + "\",\"lib\":\"" + jesc(nm) + "\",\"threw\":" + (threw ? "true" : "false") + ",\"level\":\"masa_init\"");
      } else {
        rej++;
        std::string after = list_obs(); std::string nm; masa_get_name<double>(&nm); double u0 = masa_get_param<double>("u_0");
        if (!threw || thrown != 1 || after != before || nm != "euler_1d" || u0 != 7.5)
          viol("C13", "masa_init(\"" + handle + "\",\"" + s + "\") is not a catalogue name: expected fatal error 1 and an unchanged registry", "\"input\":\"" + jesc(s) + "\",\"handle\":\"" + jesc(handle) + "\",\"threw\":" + (threw ? "true" : "false") + ",\"code\":" + std::to_string(thrown) + ",\"registry_changed\":" + (after != before ? "true" : "false") + ",\"level\":\"masa_init\"");
      }
      // re-create the anchor state: handles used above are re-initialised freely (C12 covers that)
    }
    fprintf(OUT, "{\"k\":\"c13b\",\"strings\":%zu,\"accepted\":%ld,\"rejected\":%ld}\n", s1.size(), acc, rej);
  }
  return 0;
}

// ------------------------------------------------------------------------------------- capability file
struct Caps { std::map<std::string, std::set<std::string>> D; std::map<std::string, int> dim; std::vector<std::string> order; };
static Caps read_caps(const char* path, bool is_spec) {
  Caps c; FILE* f = fopen(path, "r"); if (!f) { perror(path); exit(2); }
  char a[256], b[256], s[64], k[16]; int v, d, nv, nvec; char line[1024];
  while (fgets(line, sizeof line, f)) {
    if (line[0] == '#') continue;
    if (sscanf(line, "sol %255s %d %d %d", a, &d, &nv, &nvec) >= 2 && !strncmp(line, "sol ", 4)) { c.dim[a] = d; c.order.push_back(a); c.D[a]; }
    else if (sscanf(line, "cap %255s %255s %63s %d", a, b, s, &v) == 4 && !strncmp(line, "cap ", 4)) { if (v) c.D[a].insert(std::string(b) + "/" + (strcmp(s, "-") ? s : "")); }
    (void)k; (void)is_spec;
  }
  fclose(f); return c;
}
static double cb_d(double T) { return 2.75 + 0.25 * T; }
static LD cb_l(LD T) { return 2.75L + 0.25L * T; }
static ApiArgs args_tuple(int which) {
  ApiArgs A; const LD t0[4] = {0.3125L, 0.4375L, 0.28125L, 0.125L}, t1[4] = {1.078125L, 0.90625L, 1.21875L, 0.78125L};
  for (int k = 0; k < 4; k++) A.s[k] = which ? t1[k] : t0[k];
  A.i = which ? 2 : 1; A.fd = cb_d; A.fl = cb_l; return A;
}
static std::string snapshot_params() {
  std::string s; for (auto& n : param_names_d()) { double v = masa_get_param<double>(n); LD w = masa_get_param<LD>(n); s.append((const char*)&v, sizeof v); s.append((const char*)&w, 10); }
  return s;
}

// ------------------------------------------------------------------------------------------------ C15
static int mode_c15(const Caps& D, const Caps& P, int tier) {
  // the capability set the binary provides (vtable-derived D) must not exceed the documented one (P): an evaluator overridden outside the
  // documented set can no longer be the fail-safe stub for every parameter assignment, whatever it returns at the defaults
  for (auto& sol : D.order) if (P.D.count(sol)) for (auto& key : D.D.at(sol)) if (!P.D.at(sol).count(key)) { n_valid++;
    viol("C15", sol + ": the library overrides masa_eval_" + key + " although it is outside the documented capability set of this solution (the -1.33 contract cannot hold for all parameters)", "\"solution\":\"" + sol + "\",\"evaluator\":\"" + key + "\",\"kind\":\"undocumented-override\""); }
  for (int ctx = 0; ctx < 7; ctx++) for (auto& sol : D.order) {
    fflush(OUT);
    pid_t pid = fork();
    if (pid == 0) {
      // registry context in which the sweep runs (same in both registries): 0 fresh; 1 a second handle holding a solution that provides
      // many evaluators is re-initialised between two selections of s; 2 the 4-d solution registered first, selection moved away and back
      capture([&] { auto ctx_run = [&](auto tag) { typedef decltype(tag) S;
        if (ctx == 0) masa_init<S>("s", sol);
        // 5, 6: the instance was purged (and re-initialised with init_param) before the sweep
        else if (ctx == 5 || ctx == 6) { masa_init<S>("s", sol); masa_purge_default_param<S>(); if (ctx == 6 && sol != "masa_test_function") masa_init_param<S>(); }
        else if (ctx == 1 || ctx == 4) { masa_init<S>("s", sol); masa_init<S>("y", "heateq_1d_steady_const"); masa_select_mms<S>("s"); masa_init<S>("y", "euler_3d"); masa_select_mms<S>("s"); }
        else if (ctx == 2) { masa_init<S>("y", "navierstokes_4d_compressible_powerlaw"); masa_init<S>("s", sol); masa_select_mms<S>("y"); masa_select_mms<S>("s"); }
        // 3: another instance went through its own diagnostics first (a vector-owning solution with an emptied vector: sanity_check reports it)
        else { masa_init<S>("y", "radiation_integrated_intensity"); std::vector<S> none; masa_set_vec<S>("vec_mean", none); masa_sanity_check<S>(); masa_display_param<S>(); masa_init<S>("s", sol); } };
        ctx_run((double)0); ctx_run((LD)0); });
      { std::string a, b; masa_get_name<double>(&a); masa_get_name<LD>(&b); if (a != sol || b != sol) viol("C15", sol + ": context " + std::to_string(ctx) + " does not leave this solution selected (get_name: " + a + " / " + b + ")", "\"solution\":\"" + sol + "\",\"context\":" + std::to_string(ctx)); }
      // context 4: the sweep runs in a second thread of the process (the selection belongs to the process, not to the thread that made it)
      auto sweep = [&] {
      std::string snap0 = snapshot_params();
      long st = 0, tr = 0, va = 0;
      for (int k = 0; k < API_N; k++) {
        const ApiEntry& e = API_TABLE[k]; std::string key = std::string(e.name) + "/" + e.sig;
        if (D.D.at(sol).count(key)) continue;  // provided: not a C15 case
        st++;
        // overloads with an integer argument (direction index, moment order) run over an integer alphabet of both signs and parities
        static const int IALPHA[] = {-2, -1, 0, 3, -4, 7, -7, 1000001, -2147483647 - 1};
        bool has_int = strchr(e.sig, 'I') != 0;
        double vals_d[16]; LD vals_l[16]; std::string outs[16]; int ntup = (tier ? 4 : 2) + (has_int ? (int)(sizeof IALPHA / sizeof IALPHA[0]) : 0);
        for (int t = 0; t < ntup; t++) {
          ApiArgs A = args_tuple(t & 1); if (t >= 2 && t < (tier ? 4 : 2)) { for (int q = 0; q < 4; q++) A.s[q] = -A.s[q] * 3; A.i = t == 2 ? 0 : 7; }
          if (t >= (tier ? 4 : 2)) A.i = IALPHA[t - (tier ? 4 : 2)];
          outs[t] = capture([&] { vals_d[t] = e.cd(A); }); std::string o2 = capture([&] { vals_l[t] = e.cl(A); }); tr += 2;
          bool okd = vals_d[t] == (double)-1.33, okl = vals_l[t] == (LD)-1.33;
          bool msgd = outs[t].find("MASA ERROR") != std::string::npos, msgl = o2.find("MASA ERROR") != std::string::npos;  // also matches "SMASA ERROR"
          va += 2;
          if (!okd || !msgd) { char b[512]; snprintf(b, sizeof b, "\"solution\":\"%s\",\"context\":%d,\"fn\":\"%s\",\"sig\":\"%s\",\"scalar\":\"d\",\"tuple\":%d,\"value\":\"%.17g\",\"printed_error\":%s", sol.c_str(), ctx, e.name, e.sig, t, vals_d[t], msgd ? "true" : "false"); viol("C15", sol + " [context " + std::to_string(ctx) + "]: masa_eval_" + e.name + "<double>(" + e.sig + ") is not provided but " + (okd ? "printed no MASA ERROR line" : "returned a value other than -1.33"), b); }
          if (!okl || !msgl) { char b[512]; snprintf(b, sizeof b, "\"solution\":\"%s\",\"context\":%d,\"fn\":\"%s\",\"sig\":\"%s\",\"scalar\":\"ld\",\"tuple\":%d,\"value\":\"%.21Lg\",\"printed_error\":%s", sol.c_str(), ctx, e.name, e.sig, t, vals_l[t], msgl ? "true" : "false"); viol("C15", sol + " [context " + std::to_string(ctx) + "]: masa_eval_" + e.name + "<long double>(" + e.sig + ") is not provided but " + (okl ? "printed no MASA ERROR line" : "returned a value other than -1.33"), b); }
        }
        // sign lattice ("at arbitrary arguments"): in the fresh context every scalar argument runs over {0, positive, negative}, all
        // 3^arity combinations, so a forwarder or override that answers only on a coordinate plane / half-space is reached
        if (ctx == 0 && e.ns > 0) {
          static const LD SGN[3] = {0.0L, 0.4375L, -1.3125L}; int ncomb = 1; for (int q = 0; q < e.ns; q++) ncomb *= 3;
          for (int c = 0; c < ncomb; c++) {
            ApiArgs A = args_tuple(0); int cc = c; for (int q = 0; q < e.ns; q++) { A.s[q] = SGN[cc % 3]; cc /= 3; }
            double vd = 0; LD vl = 0; std::string o1 = capture([&] { vd = e.cd(A); }), o2 = capture([&] { vl = e.cl(A); }); tr += 2; va += 2;
            bool okd = vd == (double)-1.33, okl = vl == (LD)-1.33, msgd = o1.find("MASA ERROR") != std::string::npos, msgl = o2.find("MASA ERROR") != std::string::npos;
            if (!okd || !msgd || !okl || !msgl) { char b[640]; snprintf(b, sizeof b, "\"solution\":\"%s\",\"context\":0,\"fn\":\"%s\",\"sig\":\"%s\",\"scalar\":\"%s\",\"sign_tuple\":%d,\"args\":[%.17Lg,%.17Lg,%.17Lg,%.17Lg],\"value\":\"%.21Lg\",\"printed_error\":%s", sol.c_str(), e.name, e.sig, (!okd || !msgd) ? "d" : "ld", c, A.s[0], A.s[1], A.s[2], A.s[3], (!okd || !msgd) ? (LD)vd : vl, ((!okd || !msgd) ? msgd : msgl) ? "true" : "false");
              viol("C15", sol + " [sign lattice]: masa_eval_" + e.name + "(" + e.sig + ") is not provided but at arguments with sign pattern #" + std::to_string(c) + " it " + (((!okd || !msgd) ? okd : okl) ? "printed no MASA ERROR line" : "returned a value other than -1.33"), b); }
          }
        }
      }
      std::string snap1 = snapshot_params(); va++;
      if (snap1 != snap0) viol("C15", sol + ": parameters changed while calling unprovided evaluators", "\"solution\":\"" + sol + "\"");
      fprintf(OUT, "{\"k\":\"c15sol\",\"context\":%d,\"solution\":\"%s\",\"unprovided_pairs\":%ld,\"calls\":%ld,\"validated\":%ld}\n", ctx, sol.c_str(), st, tr, va);
      };
      if (ctx == 4) { std::thread th(sweep); th.join(); } else sweep();
      fflush(OUT); _exit(0);
    }
    int stt; waitpid(pid, &stt, 0);
    if (!WIFEXITED(stt) || WEXITSTATUS(stt) != 0) viol("C15", sol + ": process terminated while calling unprovided evaluators (wait status " + std::to_string(stt) + ")", "\"solution\":\"" + sol + "\",\"status\":" + std::to_string(stt));
  }
  return 0;
}

// ------------------------------------------------------------------------------------------------ C14
static int mode_c14(const Caps& D, const Caps& P) {
  std::vector<std::string> cd = catalogue(false), cl = catalogue(true);
  n_trans += 2;
  if (cd != cl) viol("C14", "double and long double catalogues differ", "\"n_double\":" + std::to_string(cd.size()) + ",\"n_ld\":" + std::to_string(cl.size()));
  std::set<std::string> seen;
  for (auto& n : cd) {
    n_states++;
    if (!seen.insert(n).second) viol("C14", "catalogue name listed twice: " + n, "\"name\":\"" + jesc(n) + "\"");
    std::string t = n; MASA::masa_map(&t); if (t != n || ref_normal(n) != n) viol("C14", "catalogue name is not its own normal form: " + n, "\"name\":\"" + jesc(n) + "\"");
    n_valid += 2;
    bool fixture = (n == "masa_test_function" || n == "masa_uninit");
    for (int ld = 0; ld < 2; ld++) {
      // masa_init is entered from several registry states ("contexts"); what it leaves behind must not depend on the context:
      // the complete observation (name, dimension, sanity, every parameter and vector, every documented evaluator, init_param)
      // is compared bit for bit with the one of context 0 (empty registry)
      std::string obs0;
      for (int ctx = 0; ctx < (fixture ? 1 : 9 + (int)cd.size() + 2); ctx++) {
        fflush(OUT);
        int pfd[2]; if (pipe(pfd)) { perror("pipe"); exit(2); }
        pid_t pid = fork();
        if (pid == 0) {
          close(pfd[0]);
          std::string nm; int dim = -99, san = -99, ip = -99; std::string obs; long tr = 5, va = 1;
          std::string other = (n == "euler_1d") ? "laplace_2d" : "euler_1d";
          auto body = [&](auto tag) { typedef decltype(tag) S;
            auto dirty = [&] { std::string o = capture([] { masa_display_param<S>(); }); std::istringstream ps(o); std::string line; while (std::getline(ps, line)) { size_t q = line.find(" is set to:"); if (q != std::string::npos) masa_set_param<S>(line.substr(0, q), (S)1.5); } };
            capture([&] {
              switch (ctx) {
                case 0: break;
                case 1: masa_init<S>("h", n); masa_purge_default_param<S>(); break;
                case 2: masa_init<S>("h", n); masa_purge_default_param<S>(); masa_init<S>("other", other); masa_select_mms<S>("h"); break;
                case 3: masa_init<S>("h", other); break;
                case 4: masa_init<S>("h", n); dirty(); masa_init<S>("other", n); masa_select_mms<S>("other"); masa_select_mms<S>("h"); break;
                case 5: masa_init<S>("other", n); masa_purge_default_param<S>(); break;
                default: if (ctx >= 9 + (int)cd.size()) {  // the handle held n, was purged / dirtied, then held another solution (its old instance is gone -- or recycled?)
                    masa_init<S>("h", n); if (ctx == 9 + (int)cd.size()) masa_purge_default_param<S>(); else dirty(); masa_init<S>("h", other); if (ctx != 9 + (int)cd.size()) masa_init<S>("g", other); }
                  else if (ctx >= 9) { std::string first = cd[ctx - 9]; if (first == "masa_test_function" || first == "masa_uninit") first = other; std::string tmpn;
                    // contexts 9..: the handle held catalogue entry #k, was asked its name, was re-initialised with another entry without being asked -- and is now initialised with n
                    masa_init<S>("h", first); masa_get_name<S>(&tmpn); masa_init<S>("h", other == first ? std::string("laplace_2d") : other); } break;
                case 6: masa_init<S>("h", n); dirty(); masa_init<S>("other", other); masa_select_mms<S>("h"); masa_init<S>("other", n); masa_select_mms<S>("h"); break;
              }
              masa_init<S>("h", n);
              // contexts 7, 8: activity on OTHER instances after the initialisation and before the inspection -- the self-test fixture (whose
              // init_param fails by design) in the other registry (7) resp. on another handle of this registry followed by select(h) (8)
              if (ctx == 7) { if (sizeof(S) == sizeof(double)) { masa_init<LD>("fx", "masa_test_function"); masa_init_param<LD>(); } else { masa_init<double>("fx", "masa_test_function"); masa_init_param<double>(); } }
              if (ctx == 8) { masa_init<S>("fx", "masa_test_function"); masa_init_param<S>(); masa_select_mms<S>("h"); }
              masa_get_name<S>(&nm); masa_get_dimension<S>(&dim); if (!fixture) san = masa_sanity_check<S>(); });
            tr += ctx ? 4 : 0;
            obs = nm + ";" + std::to_string(dim) + ";" + std::to_string(san) + ";";
            { std::string o = capture([] { masa_display_param<S>(); }); std::istringstream ps(o); std::string line; while (std::getline(ps, line)) { size_t q = line.find(" is set to:"); if (q != std::string::npos) { S v = masa_get_param<S>(line.substr(0, q)); obs += line.substr(0, q) + "="; char hb[64]; snprintf(hb, sizeof hb, "%La,", (LD)v); obs += hb; } } }
            { std::string o = capture([] { masa_display_vec<S>(); }); std::istringstream ps(o); std::string line; while (std::getline(ps, line)) { size_t q = line.find(" is size: "); if (q != std::string::npos) { std::vector<S> v; masa_get_vec<S>(line.substr(0, q), v); obs += line.substr(0, q) + "=["; for (S x : v) { char hb[64]; snprintf(hb, sizeof hb, "%La,", (LD)x); obs += hb; } obs += "]"; } } }
          };
          if (ld) body((LD)0); else body((double)0);
          if (nm != n) viol("C14", "masa_init(\"" + n + "\") [context " + std::to_string(ctx) + "] then masa_get_name returns \"" + nm + "\"", "\"name\":\"" + jesc(n) + "\",\"context\":" + std::to_string(ctx) + ",\"got\":\"" + jesc(nm) + "\"");
          if (!fixture) {
            va += 2;
            if (P.dim.count(n)) { va++; if (dim != P.dim.at(n)) viol("C14", n + ": masa_get_dimension=" + std::to_string(dim) + ", expected " + std::to_string(P.dim.at(n)), "\"name\":\"" + n + "\",\"context\":" + std::to_string(ctx)); }
            else if (ctx == 0) fprintf(OUT, "{\"k\":\"uncovered\",\"what\":\"solution %s is not in spec/capabilities.tsv (dimension and evaluator set not checked)\"}\n", n.c_str());
            if (P.D.count(n)) for (auto& key : P.D.at(n)) {
              size_t sl = key.find('/'); std::string fn = key.substr(0, sl), sig = key.substr(sl + 1);
              const ApiEntry* e = api_find(fn.c_str(), sig.c_str());
              if (!e) { if (ctx == 0) viol("C14", n + ": documented evaluator masa_eval_" + fn + "(" + sig + ") no longer exists in masa.h", "\"name\":\"" + n + "\",\"fn\":\"" + fn + "\",\"sig\":\"" + sig + "\""); continue; }
              va++;
              if (!D.D.count(n) || !D.D.at(n).count(key)) { if (ctx == 0) viol("C14", n + ": evaluator masa_eval_" + fn + "(" + sig + ") is documented for this solution but no longer overrides the base-class stub", "\"name\":\"" + n + "\",\"fn\":\"" + fn + "\",\"sig\":\"" + sig + "\""); continue; }
              ApiArgs A = args_tuple(0); LD v = 0; std::string o = capture([&] { v = ld ? e->cl(A) : (LD)e->cd(A); }); tr++; va++;
              { char hb[64]; snprintf(hb, sizeof hb, "%La", v); obs += key + "->" + hb + ";"; }
              if (!(v == v) || std::isinf(v) || v == (LD)-1.33 || o.find("MASA ERROR") != std::string::npos) {
                char bb[400]; snprintf(bb, sizeof bb, "\"name\":\"%s\",\"context\":%d,\"fn\":\"%s\",\"sig\":\"%s\",\"scalar\":\"%s\",\"value\":\"%.21Lg\"", n.c_str(), ctx, fn.c_str(), sig.c_str(), ld ? "ld" : "d", v);
                viol("C14", n + " [context " + std::to_string(ctx) + "]: masa_eval_" + fn + "(" + sig + ") at an interior point with default parameters is not a finite non-sentinel value", bb);
              }
              // point lattice (fresh context): every scalar argument over {5/16, 1/2, 1, 3}, all combinations: integer and half-integer
              // coordinates are where a trigonometric factor of the default parameter set sits exactly on a zero or an extremum
              if (ctx == 0 && e->ns > 0) {
                static const LD LAT[4] = {0.3125L, 0.5L, 1.0L, 3.0L}; int ncomb = 1; for (int q = 0; q < e->ns; q++) ncomb *= 4;
                for (int c = 1; c < ncomb; c++) {
                  ApiArgs B = args_tuple(0); int cc = c; for (int q = 0; q < e->ns; q++) { B.s[q] = LAT[cc % 4]; cc /= 4; }
                  LD w = 0; std::string o2 = capture([&] { w = ld ? e->cl(B) : (LD)e->cd(B); }); tr++; va++;
                  if (!(w == w) || std::isinf(w) || w == (LD)-1.33 || o2.find("MASA ERROR") != std::string::npos) {
                    char bb[500]; snprintf(bb, sizeof bb, "\"name\":\"%s\",\"context\":0,\"fn\":\"%s\",\"sig\":\"%s\",\"scalar\":\"%s\",\"lattice_point\":%d,\"args\":[%.17Lg,%.17Lg,%.17Lg,%.17Lg],\"value\":\"%.21Lg\"", n.c_str(), fn.c_str(), sig.c_str(), ld ? "ld" : "d", c, B.s[0], B.s[1], B.s[2], B.s[3], w);
                    viol("C14", n + " [point lattice]: masa_eval_" + fn + "(" + sig + ") with default parameters is not a finite non-sentinel value at lattice point #" + std::to_string(c), bb);
                  }
                }
              }
            }
            capture([&] { ip = ld ? masa_init_param<LD>() : masa_init_param<double>(); });
            obs += "init_param=" + std::to_string(ip);
            if (san != 0 || ip != 0) viol("C14", n + " [context " + std::to_string(ctx) + "]: sanity_check=" + std::to_string(san) + " init_param=" + std::to_string(ip) + " right after masa_init (expected 0,0)", "\"name\":\"" + n + "\",\"context\":" + std::to_string(ctx) + ",\"scalar\":\"" + (ld ? "ld" : "d") + "\"");
          }
          fprintf(OUT, "{\"k\":\"c14sol\",\"solution\":\"%s\",\"scalar\":\"%s\",\"context\":%d,\"calls\":%ld,\"validated\":%ld,\"dim\":%d}\n", n.c_str(), ld ? "ld" : "d", ctx, tr, va + (ctx ? 1 : 0), dim);
          fflush(OUT); ssize_t w = write(pfd[1], obs.data(), obs.size()); (void)w; _exit(0);
        }
        close(pfd[1]); std::string obs; char rb[65536]; ssize_t nr; while ((nr = read(pfd[0], rb, sizeof rb)) > 0) obs.append(rb, nr); close(pfd[0]);
        int st; waitpid(pid, &st, 0);
        if (!WIFEXITED(st) || WEXITSTATUS(st) != 0) { viol("C14", n + ": process terminated during init/inspection in context " + std::to_string(ctx) + " (wait status " + std::to_string(st) + ")", "\"name\":\"" + n + "\",\"context\":" + std::to_string(ctx)); continue; }
        if (ctx == 0) obs0 = obs;
        else if (obs != obs0) {
          size_t k = 0; while (k < obs.size() && k < obs0.size() && obs[k] == obs0[k]) k++; size_t a0 = k > 40 ? k - 40 : 0;
          viol("C14", n + " (" + (ld ? "ld" : "d") + "): what masa_init leaves behind depends on the registry state it is entered from (context " + std::to_string(ctx) + "): ..." + obs.substr(a0, 120) + "... instead of ..." + obs0.substr(a0, 120) + "...", "\"name\":\"" + n + "\",\"context\":" + std::to_string(ctx) + ",\"scalar\":\"" + (ld ? "ld" : "d") + "\"");
        }
      }
    }
  }
  // hosts that trap floating-point exceptions (Fortran codes built with -ffpe-trap, feenableexcept): listing the catalogue and
  // initialising any entry must not raise an invalid/divide-by-zero/overflow exception (what the evaluators do internally is not part of C14)
  for (int ld = 0; ld < 2; ld++) for (size_t k = 0; k <= cd.size(); k++) {
    fflush(OUT); pid_t pid = fork();
    if (pid == 0) { capture([&] { feenableexcept(FE_INVALID | FE_DIVBYZERO | FE_OVERFLOW);
        if (k == cd.size()) { if (ld) masa_printid<LD>(); else masa_printid<double>(); }
        else { if (ld) masa_init<LD>("t", cd[k]); else masa_init<double>("t", cd[k]); } });
      _exit(0); }
    int st; waitpid(pid, &st, 0); n_trans++; n_valid++; n_states++;
    if (!WIFEXITED(st) || WEXITSTATUS(st) != 0) { std::string what = k == cd.size() ? std::string("masa_printid") : "masa_init(\"" + cd[k] + "\")";
      viol("C14", what + " (" + (ld ? "long double" : "double") + ") with floating-point traps enabled: process killed (wait status " + std::to_string(st) + (WIFSIGNALED(st) && WTERMSIG(st) == SIGFPE ? ", SIGFPE" : "") + ")", "\"name\":\"" + (k == cd.size() ? std::string("printid") : cd[k]) + "\",\"kind\":\"fp-trap\""); }
  }
  for (auto& kv : P.D) if (!seen.count(kv.first)) viol("C14", "solution " + kv.first + " of the pinned catalogue is no longer listed by masa_printid", "\"name\":\"" + kv.first + "\"");
  fprintf(OUT, "{\"k\":\"c14\",\"catalogue\":%zu}\n", cd.size());
  return 0;
}

int main(int argc, char** argv) {
  std::string mode, out, caps, spec; int tier = 0; bool exc = false;
  for (int i = 1; i < argc; i++) { std::string a = argv[i]; auto nx = [&] { return std::string(argv[++i]); };
    if (a == "--mode") mode = nx(); else if (a == "--out") out = nx(); else if (a == "--caps") caps = nx(); else if (a == "--spec") spec = nx(); else if (a == "--tier") tier = nx() == "thorough"; else if (a == "--exceptions") exc = true; }
  g_capfile = out + ".cap"; OUT = fopen(out.c_str(), "a"); if (!OUT) { perror("out"); return 2; }
  setvbuf(OUT, 0, _IOLBF, 0);
  int rc = 0;
  if (mode == "c13") rc = mode_c13(tier, exc);
  else if (mode == "c14") { Caps D = read_caps(caps.c_str(), false), P = read_caps(spec.c_str(), true); rc = mode_c14(D, P); }
  else if (mode == "c15") { Caps D = read_caps(caps.c_str(), false), P = read_caps(spec.c_str(), true); rc = mode_c15(D, P, tier); }
  else if (mode == "catalogue") { for (auto& n : catalogue(false)) printf("%s\n", n.c_str()); }
  fprintf(OUT, "{\"k\":\"totals\",\"states\":%ld,\"transitions\":%ld,\"validated\":%ld}\n", n_states, n_trans, n_valid);
  fclose(OUT); unlink(g_capfile.c_str());
  return rc;
}
