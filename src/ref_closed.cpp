// C08 reference: closed-form exact solutions.
//  * sod_1d: exact self-similar solution of the Riemann problem (rho,u,p) = (1,0,1) | (1/8,0,1/8), computed in float128
//    from the Rankine-Hugoniot / isentropic relations (independent Newton+bisection on the pressure function).
//  * cp_normal: conjugate-normal model; prior N(m,sigma^2), data x_i ~ N(theta,sigma_d^2).
#include "e1.hpp"
#include <algorithm>
#include <masa.h>

namespace {
// ------------------------------------------------------------------------------------------------ Sod
struct SodSol { Q G, pm, um, rhoml, rhomr, cl, cml, s_shock, fan_head, fan_tail; };
// u across left rarefaction and right shock as functions of p*
Q sod_ul(Q p, Q G) { Q cl = sqrtq(G); return 2 * cl / (G - 1) * (1 - powq(p, (G - 1) / (2 * G))); }  // pl = rhol = 1
Q sod_ur(Q p, Q G) { Q pr = Q(1) / 8, rr = Q(1) / 8; Q A = 2 / ((G + 1) * rr), B = (G - 1) / (G + 1) * pr; return (p - pr) * sqrtq(A / (p + B)); }
SodSol sod_solve(Q G) {
  SodSol s; s.G = G; Q lo = Q(1) / 8, hi = 1;
  for (int it = 0; it < 200; it++) { Q mid = (lo + hi) / 2; if (sod_ul(mid, G) - sod_ur(mid, G) > 0) lo = mid; else hi = mid; }
  s.pm = (lo + hi) / 2; s.um = sod_ul(s.pm, G);
  s.cl = sqrtq(G); s.rhoml = powq(s.pm, 1 / G); s.cml = sqrtq(G * s.pm / s.rhoml);
  Q mu = (G - 1) / (G + 1), pr = Q(1) / 8, rr = Q(1) / 8;
  s.rhomr = rr * (s.pm + mu * pr) / (pr + mu * s.pm);
  s.s_shock = s.um * s.rhomr / (s.rhomr - rr);   // mass jump with u_r = 0
  s.fan_head = -s.cl; s.fan_tail = s.um - s.cml;
  return s;
}
// harness self-check of the reference: Rankine-Hugoniot momentum jump and equal velocity across the contact
bool sod_selfcheck(const SodSol& s) {
  Q pr = Q(1) / 8, rr = Q(1) / 8;
  Q mom = s.rhomr * s.um * (s.um - s.s_shock) + s.pm - pr;  // [rho u (u - s) + p] = 0 with u_r = 0
  Q riem = s.um + 2 * s.cml / (s.G - 1) - 2 * s.cl / (s.G - 1);
  return qabs(mom) < Q(1e-28) && qabs(riem) < Q(1e-28) && qabs(sod_ul(s.pm, s.G) - sod_ur(s.pm, s.G)) < Q(1e-28);
}
void sod_state(const SodSol& s, Q xi, Q& rho, Q& u, const char*& region, Q& dist) {
  Q fronts[5] = {s.fan_head, s.fan_tail, s.um, s.s_shock, 0}; dist = 1e30;
  for (int i = 0; i < 4; i++) { Q d = qabs(xi - fronts[i]); if (d < dist) dist = d; }
  Q mu = (s.G - 1) / (s.G + 1);
  if (xi <= s.fan_head) { rho = 1; u = 0; region = "left state"; }
  else if (xi <= s.fan_tail) { Q c = mu * (-xi) + (1 - mu) * s.cl; c = (2 / (s.G + 1)) * s.cl - mu * xi; u = (1 - mu) * (xi + s.cl); rho = powq(c / s.cl, 2 / (s.G - 1)); region = "rarefaction fan"; }
  else if (xi <= s.um) { rho = s.rhoml; u = s.um; region = "left of contact"; }
  else if (xi <= s.s_shock) { rho = s.rhomr; u = s.um; region = "post-shock"; }
  else { rho = Q(1) / 8; u = 0; region = "right state"; }
}
bool sod_ref(const Params& P, const Pt& p, std::vector<Expect>& out) {
  Q G = P("Gamma");
  if (!(G > 1)) return false;
  static std::map<std::string, SodSol> cache; std::string key = q2s(G);
  if (!cache.count(key)) { cache[key] = sod_solve(G); if (!sod_selfcheck(cache[key])) { fprintf(stderr, "E1 HARNESS ERROR: Sod reference fails its own jump relations for Gamma=%s\n", key.c_str()); exit(2); } }
  const SodSol& s = cache[key];
  Q x = p.c[0], t = p.c[3]; Q xi = x / t;
  Q rho, u, dist; const char* region; sod_state(s, xi, rho, u, region, dist);
  if (dist < Q(1e-6)) return true;  // too close to a wave front: no expectation at this point
  e1_count(std::string("sod region: ") + region);
  Q amp = 2 + 4 / (G - 1);  // conditioning of the pow() with exponents 1/Gamma, 2/(Gamma-1) and of p* w.r.t. mu, Gamma
  Expect er = mk("C08", "source_rho", "SS", p, V_XT, VS(rho, qabs(rho) * amp));
  Expect em = mk("C08", "source_rho_u", "SS", p, V_XT, VS(rho * u, (qabs(rho * u) + qabs(rho) * s.cl) * amp));
  // alternate the evaluation order from point to point: the first evaluator called after a parameter change is
  // momentum at even points and density at odd ones, so neither can hide behind state refreshed by the other
  if ((p.variant + (int)p.c[1]) % 2 == 0) { out.push_back(em); out.push_back(er); } else { out.push_back(er); out.push_back(em); }
  return true;
}

// ------------------------------------------------------------------------------------------ cp_normal
// the last vector has exactly representable entries but a mean (7/3) that no binary format holds: an accumulator of the wrong
// precision shows there and nowhere else
const std::vector<std::vector<LD>> DATA = {{1.0L}, {1.0L, 2.0L, 6.0L}, {-3.0L, 0.5L, 0.5L, 4.0L}, {1.0L, 2.0L, 4.0L}};
void cp_apply_variant(int v) {
  std::vector<LD> dl = DATA[v]; std::vector<double> dd(dl.begin(), dl.end());
  MASA::masa_set_vec<LD>("vec_data", dl); MASA::masa_set_vec<double>("vec_data", dd);
}
bool cp_ref(const Params& P, const Pt& p, std::vector<Expect>& out) {
  Q sg = P("sigma"), sd = P("sigma_d");
  if (!(sg > 0 && sd > 0)) return false;
  const std::vector<LD>& dat = DATA[p.variant];
  RJ m = RJ(P("m")), s = RJ(sg), sdj = RJ(sd), x = RJ(p.c[0]);
  RJ xbar; for (LD d : dat) xbar = xbar + RJ(d); Q n = dat.size(); xbar = xbar / n;
  RJ s2 = s * s, sd2 = sdj * sdj;
  RJ var_p = 1 / (1 / s2 + n / sd2);
  RJ m_p = var_p * (m / s2 + n * xbar / sd2);
  auto dens = [&](const RJ& mean, const RJ& var) { RJ d = x - mean; return exp(-(d * d) / (2 * var)) / sqrt(2 * PIq * var); };
  RJ prior = dens(m, s2), post = dens(m_p, var_p);
  RJ dl = x - xbar; RJ loglik = -(n / (2 * sd2)) * dl * dl; RJ lik = exp(loglik);
  // posterior_mean / variance first: they must reflect the vector just installed, before any likelihood evaluation
  out.push_back(mk("C08", "posterior_mean", "", p, V_X, val(m_p)));
  out.push_back(mk("C08", "posterior_variance", "", p, V_X, val(var_p)));
  out.push_back(mk("C08", "prior", "S", p, V_X, val(prior)));
  out.push_back(mk("C08", "likelyhood", "S", p, V_X, val(lik)));
  out.push_back(mk("C08", "loglikelyhood", "S", p, V_X, val(loglik)));
  out.push_back(mk("C08", "posterior", "S", p, V_X, val(post)));
  out.push_back(mk("C08", "posterior_mean", "", p, V_X, val(m_p)));
  // harness self-check: posterior proportional to likelihood x prior with the normalising constant of the conjugate pair
  { RJ xm = xbar - m; RJ Z = exp(-(xm * xm) / (2 * (s2 + sd2 / n))) * sqrt(var_p / s2);
    Q lhs = post.v * Z.v, rhs = lik.v * prior.v;
    if (qabs(lhs - rhs) > Q(1e-25) * (qabs(lhs) + qabs(rhs)) + Q(1e-4000)) { fprintf(stderr, "E1 HARNESS ERROR: conjugate-normal reference inconsistent\n"); exit(2); } }
  if (p.c[1] == 0) {  // central moments once per (assignment, variant): 0 for odd k, sigma^k (k-1)!! for even k
    for (int k = 0; k <= 20; k++) {
      RJ mom = RJ(Q(0));
      if (k % 2 == 0) { mom = RJ(Q(1)); for (int j = 0; j < k; j++) mom = mom * s; for (int j = k - 1; j >= 1; j -= 2) mom = mom * Q(j); }
      Expect e = mk("C08", "central_moment", "I", p, V_X, val(mom)); e.idx = k; out.push_back(e);
    }
  }
  return true;
}

struct Reg {
  Reg() {
    for (int first = 0; first < 2; first++) {
      System s; s.name = first ? "sod_1d[density-first]" : "sod_1d"; s.solution = "sod_1d"; s.prop = "C08"; s.dim = 1; s.no_boundary_points = true;  // the xi = x/t lattice is placed relative to the wave fronts
      s.base = [](Params& P) { P.m["Gamma"] = dy(1408); };
      s.frozen.push_back("mu");
      s.derive = [](Params& P) { Q G = P.m["Gamma"]; P.m["mu"] = (LD)((G - 1) / (G + 1)); };  // derived registered parameter
      s.alphabet = [](const std::string& n, LD b, LD d) { return std::vector<LD>{d, dy(1152), dy(1280), dy(1707), 2.0L, 3.0L, dy(1126), 1.0625L, 1.03125L}; };  // Gamma down to transonic rarefactions (fan tail right of x = 0 for Gamma < 1.115)
      s.points = [first](int tier) {
        std::vector<Pt> pts; const long ts[] = {51, 205, 1024};
        int step = tier ? 1 : 2;  // xi = x/t on a dyadic grid: -2 .. 3.5 step 1/16 (thorough) or 1/8 (quick)
        int cnt = 0; for (long tk : ts) for (int k = 0; k <= 88; k += step) { LD xi = -2.0L + (LD)k / 16.0L; LD t = dy(tk); Pt q(xi * t, 0, 0, t); q.variant = cnt++; q.c[1] = first; pts.push_back(q); }
        // refinement around xi = 0 (the sonic point of a transonic fan sits there): +-1/256 ... +-1/32
        for (long tk : ts) for (int e = 5; e <= 8; e++) for (int sg = -1; sg <= 1; sg += 2) { LD xi = sg * ldexpl(1.0L, -e); LD t = dy(tk); Pt q(xi * t, 0, 0, t); q.variant = cnt++; q.c[1] = first; pts.push_back(q); }
        // start inside the wave structure (xi = 0.5: between fan tail and contact for every Gamma of the alphabet), so that the very
        // first evaluation after a parameter change is sensitive to every cached quantity
        std::rotate(pts.begin(), pts.begin() + (tier ? 40 : 20), pts.end());
        return pts;
      };
      s.reference = sod_ref; s.max_dev_quick = 1; s.max_dev_thorough = 1;
      e1_systems().push_back(s);
    }
    {
      System s; s.name = "cp_normal"; s.prop = "C08"; s.dim = 1; s.no_boundary_points = true;
      s.base = [](Params& P) { P.m["m"] = dy(2560); P.m["sigma"] = dy(1536); P.m["sigma_d"] = dy(717); };
      s.frozen.push_back("x_bar");
      s.alphabet = [](const std::string& n, LD b, LD d) {
        if (n == "m") return std::vector<LD>{d, -1.0L, 0.0L};
        if (n == "sigma") return std::vector<LD>{d, 0.5L, 1.0L, 3.0L, 4096.0L};  // 4096: vague prior (the data dominate: sigma_d^2/(n sigma^2) ~ 1e-10)
        return std::vector<LD>{d, 2.0L, 1.0L, 0.0625L};
      };
      s.apply_variant = cp_apply_variant;
      s.points = [](int tier) {
        std::vector<Pt> pts; const long xs[] = {-3072, -1024, -256, 0, 512, 1280, 2560, 4096, 7168};
        for (int v = 0; v < (int)DATA.size(); v++) for (int i = 0; i < 9; i++) { Pt p(dy(xs[i]), i, 0, 0); p.variant = v; pts.push_back(p); }
        return pts;
      };
      s.reference = cp_ref; s.max_dev_quick = 2; s.max_dev_thorough = 3;
      e1_systems().push_back(s);
    }
  }
} reg;
}  // namespace
