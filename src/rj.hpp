// Reference arithmetic for the lattice explorer (E1).
//
// RJ = second-order forward-mode jet in NV=4 variables (x,y,z,t) over __float128, carrying in parallel, for every
// slot (value, gradient, Hessian), a first-order running error bound in units of u.  These bounds give S, the scale
// against which roundoff is measured (|lib-ref| <= K*u*S).
#pragma once
#include <quadmath.h>
#include <cmath>
#include <cstdio>
#include <string>
typedef __float128 Q;
typedef long double LD;
static const int NV = 4;
static inline Q qabs(Q a) { return fabsq(a); }
static const Q PIq = M_PIq;

// Every slot carries, next to its value, a first-order *running error bound* in units of the unit roundoff u: the
// absolute error a working-precision evaluation of the same quantity along this route can accumulate
// (inputs and constants count one rounding; x+y: e_x+e_y+|x+y|; x*y: |x|e_y+|y|e_x+|xy|; f(x): |f'(x)|e_x+|f(x)|).
// This is the scale S of the comparison rule |lib-ref| <= K*u*S.  It follows the conditioning of the expression
// (cancellation, large trigonometric arguments, pow with large exponents) without the exponential blow-up that a
// product of leaf magnitudes suffers in deep function chains (law-of-the-wall fields, SA closures).
struct RJ {
  Q v, g[NV], h[NV][NV];     // value jet
  Q mv, mg[NV], mh[NV][NV];  // running error bounds of the slots, in units of u
  void zero() {
    v = 0; mv = 0;
    for (int i = 0; i < NV; i++) { g[i] = 0; mg[i] = 0; for (int j = 0; j < NV; j++) { h[i][j] = 0; mh[i][j] = 0; } }
  }
  RJ() { zero(); }
  RJ(Q c) { zero(); v = c; mv = qabs(c); }
  RJ(double c) { zero(); v = c; mv = qabs((Q)c); }
  RJ(long double c) { zero(); v = c; mv = qabs((Q)c); }
  RJ(int c) { zero(); v = c; mv = qabs((Q)c); }
  static RJ var(Q c, int k) { RJ r(c); r.g[k] = 1; return r; }
};
// error of a product of two quantities (x, ex), (y, ey)
static inline Q perr(Q x, Q ex, Q y, Q ey) { return qabs(x) * ey + qabs(y) * ex + qabs(x * y); }

// f(u) with f and its first three derivatives evaluated at the true argument
static inline RJ lift(const RJ& u, Q f, Q f1, Q f2, Q f3) {
  RJ r; Q eu = u.mv;
  Q e0 = qabs(f1) * eu + qabs(f), e1 = qabs(f2) * eu + qabs(f1), e2 = qabs(f3) * eu + qabs(f2);
  r.v = f; r.mv = e0;
  for (int i = 0; i < NV; i++) {
    r.g[i] = f1 * u.g[i]; r.mg[i] = (u.g[i] == 0 && u.mg[i] == 0) ? Q(0) : perr(f1, e1, u.g[i], u.mg[i]);
    for (int j = 0; j < NV; j++) {
      Q gg = u.g[i] * u.g[j]; Q egg = (gg == 0 && u.mg[i] == 0 && u.mg[j] == 0) ? Q(0) : perr(u.g[i], u.mg[i], u.g[j], u.mg[j]);
      r.h[i][j] = f2 * gg + f1 * u.h[i][j];
      bool z = (gg == 0 && egg == 0 && u.h[i][j] == 0 && u.mh[i][j] == 0);
      r.mh[i][j] = z ? Q(0) : perr(f2, e2, gg, egg) + perr(f1, e1, u.h[i][j], u.mh[i][j]) + qabs(r.h[i][j]);
    }
  }
  return r;
}
static inline RJ operator+(const RJ& a, const RJ& b) {
  RJ r; r.v = a.v + b.v; r.mv = a.mv + b.mv + qabs(r.v);
  for (int i = 0; i < NV; i++) {
    r.g[i] = a.g[i] + b.g[i]; r.mg[i] = (a.mg[i] == 0 && b.mg[i] == 0 && r.g[i] == a.g[i] + b.g[i] && (a.g[i] == 0 || b.g[i] == 0)) ? a.mg[i] + b.mg[i] : a.mg[i] + b.mg[i] + qabs(r.g[i]);
    for (int j = 0; j < NV; j++) { r.h[i][j] = a.h[i][j] + b.h[i][j]; r.mh[i][j] = (a.h[i][j] == 0 || b.h[i][j] == 0) ? a.mh[i][j] + b.mh[i][j] : a.mh[i][j] + b.mh[i][j] + qabs(r.h[i][j]); }
  }
  return r;
}
static inline RJ operator-(const RJ& a, const RJ& b) {
  RJ r; r.v = a.v - b.v; r.mv = a.mv + b.mv + qabs(r.v);
  for (int i = 0; i < NV; i++) {
    r.g[i] = a.g[i] - b.g[i]; r.mg[i] = (a.g[i] == 0 || b.g[i] == 0) ? a.mg[i] + b.mg[i] : a.mg[i] + b.mg[i] + qabs(r.g[i]);
    for (int j = 0; j < NV; j++) { r.h[i][j] = a.h[i][j] - b.h[i][j]; r.mh[i][j] = (a.h[i][j] == 0 || b.h[i][j] == 0) ? a.mh[i][j] + b.mh[i][j] : a.mh[i][j] + b.mh[i][j] + qabs(r.h[i][j]); }
  }
  return r;
}
static inline RJ operator-(const RJ& a) { RJ r = a; r.v = -a.v; for (int i = 0; i < NV; i++) { r.g[i] = -a.g[i]; for (int j = 0; j < NV; j++) r.h[i][j] = -a.h[i][j]; } return r; }
static inline RJ operator*(const RJ& a, const RJ& b) {
  RJ r; r.v = a.v * b.v; r.mv = perr(a.v, a.mv, b.v, b.mv);
  for (int i = 0; i < NV; i++) {
    r.g[i] = a.g[i] * b.v + a.v * b.g[i];
    Q e = 0; int terms = 0;
    if (a.g[i] != 0 || a.mg[i] != 0) { e += perr(a.g[i], a.mg[i], b.v, b.mv); terms++; }
    if (b.g[i] != 0 || b.mg[i] != 0) { e += perr(a.v, a.mv, b.g[i], b.mg[i]); terms++; }
    r.mg[i] = e + (terms > 1 ? qabs(r.g[i]) : Q(0));
    for (int j = 0; j < NV; j++) {
      r.h[i][j] = a.h[i][j] * b.v + a.g[i] * b.g[j] + a.g[j] * b.g[i] + a.v * b.h[i][j];
      Q eh = 0; int th = 0;
      if (a.h[i][j] != 0 || a.mh[i][j] != 0) { eh += perr(a.h[i][j], a.mh[i][j], b.v, b.mv); th++; }
      if ((a.g[i] != 0 || a.mg[i] != 0) && (b.g[j] != 0 || b.mg[j] != 0)) { eh += perr(a.g[i], a.mg[i], b.g[j], b.mg[j]); th++; }
      if ((a.g[j] != 0 || a.mg[j] != 0) && (b.g[i] != 0 || b.mg[i] != 0)) { eh += perr(a.g[j], a.mg[j], b.g[i], b.mg[i]); th++; }
      if (b.h[i][j] != 0 || b.mh[i][j] != 0) { eh += perr(a.v, a.mv, b.h[i][j], b.mh[i][j]); th++; }
      r.mh[i][j] = eh + (th > 1 ? (th - 1) * qabs(r.h[i][j]) : Q(0));
    }
  }
  return r;
}
static inline RJ inv(const RJ& a) { Q i1 = 1 / a.v; return lift(a, i1, -i1 * i1, 2 * i1 * i1 * i1, -6 * i1 * i1 * i1 * i1); }
static inline RJ operator/(const RJ& a, const RJ& b) { return a * inv(b); }
static inline RJ sin(const RJ& a) { Q s = sinq(a.v), c = cosq(a.v); return lift(a, s, c, -s, -c); }
static inline RJ cos(const RJ& a) { Q s = sinq(a.v), c = cosq(a.v); return lift(a, c, -s, -c, s); }
static inline RJ exp(const RJ& a) { Q e = expq(a.v); return lift(a, e, e, e, e); }
static inline RJ log(const RJ& a) { return lift(a, logq(a.v), 1 / a.v, -1 / (a.v * a.v), 2 / (a.v * a.v * a.v)); }
static inline RJ sqrt(const RJ& a) { Q s = sqrtq(a.v); return lift(a, s, 1 / (2 * s), -1 / (4 * s * a.v), 3 / (8 * s * a.v * a.v)); }
static inline RJ powc(const RJ& a, Q p) { Q f = powq(a.v, p); return lift(a, f, p * powq(a.v, p - 1), p * (p - 1) * powq(a.v, p - 2), p * (p - 1) * (p - 2) * powq(a.v, p - 3)); }
static inline RJ atan(const RJ& a) { Q d = 1 + a.v * a.v; return lift(a, atanq(a.v), 1 / d, -2 * a.v / (d * d), (6 * a.v * a.v - 2) / (d * d * d)); }
static inline RJ asin(const RJ& a) { Q d = 1 - a.v * a.v; Q sd = sqrtq(d); return lift(a, asinq(a.v), 1 / sd, a.v / (d * sd), (1 + 2 * a.v * a.v) / (d * d * sd)); }
static inline RJ tanh(const RJ& a) { Q t = tanhq(a.v); Q s2 = 1 - t * t; return lift(a, t, s2, -2 * t * s2, -2 * s2 * s2 + 4 * t * t * s2); }
#define RJ_MIXED(T)                                                                                   \
  static inline RJ operator+(const RJ& a, T b) { return a + RJ(b); }                                  \
  static inline RJ operator+(T a, const RJ& b) { return RJ(a) + b; }                                  \
  static inline RJ operator-(const RJ& a, T b) { return a - RJ(b); }                                  \
  static inline RJ operator-(T a, const RJ& b) { return RJ(a) - b; }                                  \
  static inline RJ operator*(const RJ& a, T b) { return a * RJ(b); }                                  \
  static inline RJ operator*(T a, const RJ& b) { return RJ(a) * b; }                                  \
  static inline RJ operator/(const RJ& a, T b) { return a * inv(RJ(b)); }                             \
  static inline RJ operator/(T a, const RJ& b) { return RJ(a) * inv(b); }
RJ_MIXED(Q)
RJ_MIXED(int)
RJ_MIXED(double)

// first-order-valid jet of du/dx_j (value = u_j, gradient = row j of the Hessian)
static inline RJ D(const RJ& u, int j) {
  RJ r; r.v = u.g[j]; r.mv = u.mg[j];
  for (int k = 0; k < NV; k++) { r.g[k] = u.h[j][k]; r.mg[k] = u.mh[j][k]; }
  return r;
}
// value + scales extracted from a jet slot: s = running error bound (units of u), t = sum of |term| over the operator-level
// terms the reference assembles (the "magnitude of the terms of the governing operator" in the words of property C09)
struct VS { Q v, s, t; VS() : v(0), s(0), t(0) {} VS(Q a, Q b) : v(a), s(b), t(qabs(a)) {} VS(Q a, Q b, Q c) : v(a), s(b), t(c) {} };
static inline VS val(const RJ& a) { return VS(a.v, a.mv); }
static inline VS d1(const RJ& a, int i) { return VS(a.g[i], a.mg[i]); }
static inline VS d2(const RJ& a, int i, int j) { return VS(a.h[i][j], a.mh[i][j]); }
static inline VS operator+(VS a, VS b) { Q v = a.v + b.v; return VS(v, a.s + b.s + ((a.v == 0 || b.v == 0) ? Q(0) : qabs(v)), a.t + b.t); }
static inline VS operator-(VS a, VS b) { Q v = a.v - b.v; return VS(v, a.s + b.s + ((a.v == 0 || b.v == 0) ? Q(0) : qabs(v)), a.t + b.t); }
static inline VS operator*(VS a, VS b) { return VS(a.v * b.v, perr(a.v, a.s, b.v, b.s), a.t * b.t); }
static inline VS operator*(Q a, VS b) { return VS(a * b.v, qabs(a) * b.s + qabs(a * b.v), qabs(a) * b.t); }
static inline VS operator/(VS a, Q b) { return VS(a.v / b, a.s / qabs(b) + qabs(a.v / b), a.t / qabs(b)); }
static inline VS operator-(VS a) { return VS(-a.v, a.s, a.t); }

static inline std::string q2s(Q x, int digits = 36) {
  char b[96]; char fmt[16]; snprintf(fmt, sizeof fmt, "%%.%dQe", digits - 1);
  quadmath_snprintf(b, sizeof b, fmt, x); return b;
}
static inline std::string ld2s(long double x) { char b[64]; snprintf(b, sizeof b, "%.21Le", x); return b; }
