// Reference arithmetic for the lattice explorer (E1).
//
// RJ = second-order forward-mode jet in NV=4 variables (x,y,z,t) over __float128, carrying in parallel
// a *magnitude jet*: the sum of |leaf| over the fully expanded expression for every slot (value,
// gradient, Hessian).  The magnitude slots give S, the scale against which roundoff is measured
// (|lib-ref| <= K*u*S); they are computed with the true arguments of the elementary functions.
#pragma once
#include <quadmath.h>
#include <cmath>
#include <cstdio>
#include <string>
typedef __float128 Q;
typedef long double LD;
static const int NV = 4;
static inline Q qabs(Q a) { return fabsq(a); }
static const Q PIq = M_PIq;

struct RJ {
  Q v, g[NV], h[NV][NV];     // value jet
  Q mv, mg[NV], mh[NV][NV];  // magnitude jet
  void zero() {
    v = 0; mv = 0;
    for (int i = 0; i < NV; i++) { g[i] = 0; mg[i] = 0; for (int j = 0; j < NV; j++) { h[i][j] = 0; mh[i][j] = 0; } }
  }
  RJ() { zero(); }
  RJ(Q c) { zero(); v = c; mv = qabs(c); }
  RJ(double c) { zero(); v = c; mv = qabs((Q)c); }
  RJ(long double c) { zero(); v = c; mv = qabs((Q)c); }
  RJ(int c) { zero(); v = c; mv = qabs((Q)c); }
  static RJ var(Q c, int k) { RJ r(c); r.g[k] = 1; r.mg[k] = 1; return r; }
};

// f(u) with f and its first three derivatives evaluated at the true argument.  The magnitude slots also carry
// the sensitivity of each slot to a relative perturbation of the argument (|d slot / d u| * |u|), so that S is a
// condition-aware scale: rounding the argument of sin/cos/exp/pow counts as roundoff however large it is.
static inline RJ lift(const RJ& u, Q f, Q f1, Q f2, Q f3) {
  RJ r; r.v = f; Q a1 = qabs(f1), a2 = qabs(f2), a3 = qabs(f3), au = u.mv;
  r.mv = qabs(f) + a1 * au;
  for (int i = 0; i < NV; i++) {
    r.g[i] = f1 * u.g[i]; r.mg[i] = (a1 + a2 * au) * u.mg[i];
    for (int j = 0; j < NV; j++) {
      r.h[i][j] = f2 * u.g[i] * u.g[j] + f1 * u.h[i][j];
      r.mh[i][j] = (a2 + a3 * au) * u.mg[i] * u.mg[j] + (a1 + a2 * au) * u.mh[i][j];
    }
  }
  return r;
}
static inline RJ operator+(const RJ& a, const RJ& b) {
  RJ r; r.v = a.v + b.v; r.mv = a.mv + b.mv;
  for (int i = 0; i < NV; i++) {
    r.g[i] = a.g[i] + b.g[i]; r.mg[i] = a.mg[i] + b.mg[i];
    for (int j = 0; j < NV; j++) { r.h[i][j] = a.h[i][j] + b.h[i][j]; r.mh[i][j] = a.mh[i][j] + b.mh[i][j]; }
  }
  return r;
}
static inline RJ operator-(const RJ& a, const RJ& b) {
  RJ r; r.v = a.v - b.v; r.mv = a.mv + b.mv;
  for (int i = 0; i < NV; i++) {
    r.g[i] = a.g[i] - b.g[i]; r.mg[i] = a.mg[i] + b.mg[i];
    for (int j = 0; j < NV; j++) { r.h[i][j] = a.h[i][j] - b.h[i][j]; r.mh[i][j] = a.mh[i][j] + b.mh[i][j]; }
  }
  return r;
}
static inline RJ operator-(const RJ& a) { return RJ(0) - a; }
static inline RJ operator*(const RJ& a, const RJ& b) {
  RJ r; r.v = a.v * b.v; r.mv = a.mv * b.mv;
  for (int i = 0; i < NV; i++) {
    r.g[i] = a.g[i] * b.v + a.v * b.g[i];
    r.mg[i] = a.mg[i] * b.mv + a.mv * b.mg[i];
    for (int j = 0; j < NV; j++) {
      r.h[i][j] = a.h[i][j] * b.v + a.g[i] * b.g[j] + a.g[j] * b.g[i] + a.v * b.h[i][j];
      r.mh[i][j] = a.mh[i][j] * b.mv + a.mg[i] * b.mg[j] + a.mg[j] * b.mg[i] + a.mv * b.mh[i][j];
    }
  }
  return r;
}
static inline RJ inv(const RJ& a) { Q i1 = 1 / a.v; return lift(a, i1, -i1 * i1, 2 * i1 * i1 * i1, -6 * i1 * i1 * i1 * i1); }
static inline RJ operator/(const RJ& a, const RJ& b) { return a * inv(b); }
static inline RJ sin(const RJ& a) { Q s = sinq(a.v), c = cosq(a.v); return lift(a, s, c, -s, -c); }
static inline RJ cos(const RJ& a) { Q s = sinq(a.v), c = cosq(a.v); return lift(a, c, -s, -c, s); }
static inline RJ exp(const RJ& a) { Q e = expq(a.v); return lift(a, e, e, e, e); }
static inline RJ log(const RJ& a) { return lift(a, logq(a.v), 1 / a.v, -1 / (a.v * a.v), 2 / (a.v * a.v * a.v)); }
static inline RJ sqrt(const RJ& a) { Q s = sqrtq(a.v); return lift(a, s, 1 / (2 * s), -1 / (4 * s * a.v), 3 / (8 * s * a.v * a.v)); }
static inline RJ powc(const RJ& a, Q p) { Q f = powq(a.v, p); return lift(a, f, p * powq(a.v, p - 1), p * (p - 1) * powq(a.v, p - 2), p * (p - 1) * (p - 2) * powq(a.v, p - 3)); }
static inline RJ atan(const RJ& a) { Q d = 1 + a.v * a.v; return lift(a, atanq(a.v), 1 / d, -2 * a.v / (d * d), (6 * a.v * a.v - 2) / (d * d * d)); }
static inline RJ asin(const RJ& a) { Q d = 1 - a.v * a.v; Q sd = sqrtq(d); return lift(a, asinq(a.v), 1 / sd, a.v / (d * sd), (1 + 2 * a.v * a.v) / (d * d * sd)); }
static inline RJ tanh(const RJ& a) { Q t = tanhq(a.v); Q s2 = 1 - t * t; return lift(a, t, s2, -2 * t * s2, -2 * s2 * s2 + 4 * t * t * s2); }
#define RJ_MIXED(T)                                                                                   \
  static inline RJ operator+(const RJ& a, T b) { return a + RJ(b); }                                  \
  static inline RJ operator+(T a, const RJ& b) { return RJ(a) + b; }                                  \
  static inline RJ operator-(const RJ& a, T b) { return a - RJ(b); }                                  \
  static inline RJ operator-(T a, const RJ& b) { return RJ(a) - b; }                                  \
  static inline RJ operator*(const RJ& a, T b) { return a * RJ(b); }                                  \
  static inline RJ operator*(T a, const RJ& b) { return RJ(a) * b; }                                  \
  static inline RJ operator/(const RJ& a, T b) { return a * inv(RJ(b)); }                             \
  static inline RJ operator/(T a, const RJ& b) { return RJ(a) * inv(b); }
RJ_MIXED(Q)
RJ_MIXED(int)
RJ_MIXED(double)

// first-order-valid jet of du/dx_j (value = u_j, gradient = row j of the Hessian)
static inline RJ D(const RJ& u, int j) {
  RJ r; r.v = u.g[j]; r.mv = u.mg[j];
  for (int k = 0; k < NV; k++) { r.g[k] = u.h[j][k]; r.mg[k] = u.mh[j][k]; }
  return r;
}
// value + scale pair extracted from a jet slot
struct VS { Q v, s; VS() : v(0), s(0) {} VS(Q a, Q b) : v(a), s(b) {} };
static inline VS val(const RJ& a) { return VS(a.v, a.mv); }
static inline VS d1(const RJ& a, int i) { return VS(a.g[i], a.mg[i]); }
static inline VS d2(const RJ& a, int i, int j) { return VS(a.h[i][j], a.mh[i][j]); }
static inline VS operator+(VS a, VS b) { return VS(a.v + b.v, a.s + b.s); }
static inline VS operator-(VS a, VS b) { return VS(a.v - b.v, a.s + b.s); }
static inline VS operator*(VS a, VS b) { return VS(a.v * b.v, a.s * b.s); }
static inline VS operator*(Q a, VS b) { return VS(a * b.v, qabs(a) * b.s); }
static inline VS operator/(VS a, Q b) { return VS(a.v / b, a.s / qabs(b)); }
static inline VS operator-(VS a) { return VS(-a.v, a.s); }

static inline std::string q2s(Q x, int digits = 36) {
  char b[96]; char fmt[16]; snprintf(fmt, sizeof fmt, "%%.%dQe", digits - 1);
  quadmath_snprintf(b, sizeof b, fmt, x); return b;
}
static inline std::string ld2s(long double x) { char b[64]; snprintf(b, sizeof b, "%.21Le", x); return b; }
