// C17 evaluators: every extern "C" evaluator symbol defined in cmasa.cpp x every catalogue solution x 3 argument tuples
// must return bit-identical values (and print the same text) as the C++ <double> template its name designates.
#include "api_gen.hpp"
#include <masa.h>
#include <cstdio>
#include <cfenv>
#include <cstring>
#include <fcntl.h>
#include <iostream>
#include <sstream>
#include <string>
#include <sys/wait.h>
#include <unistd.h>
#include <vector>
using namespace MASA;
typedef long double LD;
struct CEval { const char* sym; const char* fn; const char* sig; double (*call)(const ApiArgs&); };
#include "c_eval_gen.hpp"
static std::string g_cap = "/dev/shm/e2_cevals.cap";
template <class F> static std::string capture(F f) {
  std::cout.flush(); fflush(stdout); int saved = dup(1); int fd = open(g_cap.c_str(), O_RDWR | O_CREAT | O_TRUNC, 0600);
  dup2(fd, 1); f(); std::cout.flush(); fflush(stdout); dup2(saved, 1); close(saved);
  off_t n = lseek(fd, 0, SEEK_END); lseek(fd, 0, SEEK_SET); std::string s(n, '\0'); if (n > 0) { ssize_t r = read(fd, &s[0], n); (void)r; } close(fd); return s;
}
int main() {
  g_cap += "." + std::to_string(getpid());
  std::string cat = capture([] { masa_printid<double>(); }); std::vector<std::string> names; std::istringstream is(cat); std::string l; bool in = false;
  while (std::getline(is, l)) { if (l.find("*---") != std::string::npos) { if (in) break; in = true; continue; } if (in && !l.empty()) names.push_back(l); }
  const LD T[3][4] = {{0.3125L, 0.4375L, 0.28125L, 0.125L}, {1.078125L, 0.90625L, 1.21875L, 0.78125L}, {0.6875L, 0.15625L, 0.53125L, 0.40625L}};
  long total = 0;
  for (auto& sol : names) {
    int pfd[2]; if (pipe(pfd)) return 2; fflush(stdout);
    pid_t pid = fork();
    if (pid == 0) {
      close(pfd[0]); long n = 0; capture([&] { masa_init<double>("c", sol); });
      for (auto& c : C_EVALS) {
        const ApiEntry* e = api_find(c.fn, c.sig);
        if (!e) { printf("BAD %s: no C++ template masa_eval_%s(%s) to compare with\n", c.sym, c.fn, c.sig); continue; }
        for (int t = 0; t < 3; t++) {
          ApiArgs A; for (int k = 0; k < 4; k++) A.s[k] = T[t][k]; A.i = 1 + t % 3; A.fd = [](double x) { return 2.75 + 0.25 * x; }; A.fl = 0;
          double a = 0, b = 0; std::string oa = capture([&] { a = c.call(A); }), ob = capture([&] { b = e->cd(A); }); n++;
          bool same = (a != a && b != b) || memcmp(&a, &b, sizeof a) == 0;
          if (!same || oa != ob) printf("BAD %s on %s (tuple %d): C returns %.17g, masa_eval_%s<double> returns %.17g%s\n", c.sym, sol.c_str(), t, a, c.fn, b, oa != ob ? " (stdout differs)" : "");
        }
        // the wrapper runs in the caller's floating-point environment, like the template: compared bit for bit in the three directed rounding modes
        for (int mode : {FE_UPWARD, FE_DOWNWARD, FE_TOWARDZERO}) {
          ApiArgs A; for (int k = 0; k < 4; k++) A.s[k] = T[0][k]; A.i = 1; A.fd = [](double x) { return 2.75 + 0.25 * x; }; A.fl = 0;
          fesetround(mode); double a = c.call(A), b = e->cd(A); int after = fegetround(); fesetround(FE_TONEAREST); n++;
          bool same = (a != a && b != b) || memcmp(&a, &b, sizeof a) == 0;
          if (!same || after != mode) { printf("BAD %s on %s in rounding mode %d: C returns %.17g, masa_eval_%s<double> returns %.17g%s\n", c.sym, sol.c_str(), mode, a, c.fn, b, after != mode ? " (rounding mode changed by the call)" : ""); break; }
        }
        // evaluators that take a user function: eight distinct function pointers, three rounds, each call compared -- the wrapper must
        // forward the pointer it was given, whatever it was given before
        if (strchr(c.sig, 'F')) {
          static double (*const CBS[])(double) = {[](double x) { return 2.75 + 0.25 * x; }, [](double x) { return 3.5 + 0.125 * x; }, [](double x) { return 1.25 + 0.5 * x; }, [](double x) { return 4.0 + 0.0625 * x * x; },
                                                  [](double x) { return 2.0 + 1.0 / (1.0 + x * x); }, [](double x) { return 5.5 - 0.03125 * x; }, [](double) { return 3.75; }, [](double x) { return 0.75 + 0.375 * x; }};
          for (int round = 0; round < 3; round++) for (int k = 0; k < 8; k++) {
            ApiArgs A; for (int q = 0; q < 4; q++) A.s[q] = T[round % 3][q]; A.i = 1; A.fd = CBS[(k * (round + 1)) % 8]; A.fl = 0;
            double a = 0, b = 0; capture([&] { a = c.call(A); }); capture([&] { b = e->cd(A); }); n++;
            if (!((a != a && b != b) || memcmp(&a, &b, sizeof a) == 0)) { printf("BAD %s on %s: with user function #%d (round %d) C returns %.17g, masa_eval_%s<double> returns %.17g\n", c.sym, sol.c_str(), (k * (round + 1)) % 8, round, a, c.fn, b); break; }
          }
        }
      }
      // non-evaluator wrappers on this solution: name (canary-filled buffer), dimension, every parameter through both views,
      // display text, statuses of sanity/purge/init_param, every vector through get_array
      if (sol != "masa_test_function") {
        char buf[512]; memset(buf, '#', sizeof buf); buf[511] = 0; std::string cpp; int sc = masa_get_name(buf), sp = masa_get_name<double>(&cpp); n++;
        if (sc != sp || cpp != buf) printf("BAD masa_get_name on %s: C wrote '%.80s' (status %d), C++ returns '%s' (status %d)\n", sol.c_str(), buf, sc, cpp.c_str(), sp);
        else if (buf[cpp.size() + 1] != '#') printf("BAD masa_get_name on %s: wrote beyond the terminating NUL\n", sol.c_str());
        int d1 = -5, d2 = -6, s1 = masa_get_dimension(&d1), s2 = masa_get_dimension<double>(&d2); n++; if (d1 != d2 || s1 != s2) printf("BAD masa_get_dimension on %s: C (%d,%d) C++ (%d,%d)\n", sol.c_str(), s1, d1, s2, d2);
        std::string o1 = capture([] { masa_display_param(); }), o2 = capture([] { masa_display_param<double>(); }); n++; if (o1 != o2) printf("BAD masa_display_param on %s: C and C++ print different text\n", sol.c_str());
        std::vector<std::string> pn; { std::istringstream ps(o2); std::string line; while (std::getline(ps, line)) { size_t p = line.find(" is set to:"); if (p != std::string::npos) pn.push_back(line.substr(0, p)); } }
        int k = 0;
        // a registered name followed by a byte >= 0x80 is an unknown name for both interfaces
        for (size_t q = 0; q < pn.size() && q < 4; q++) for (const char* suf : {"\xc2\xb0", "\xe9", "\x80"}) { std::string bad = pn[q] + suf; double a = 0, b = 0; std::string oa = capture([&] { a = masa_get_param(bad.c_str()); }), ob = capture([&] { b = masa_get_param<double>(bad); }); n++;
          double before = masa_get_param<double>(pn[q]); capture([&] { masa_set_param(bad.c_str(), 4.625); }); double after = masa_get_param<double>(pn[q]);
          if (memcmp(&a, &b, 8) || oa != ob || memcmp(&before, &after, 8)) { printf("BAD parameter name '%s' + non-ASCII byte through C on %s: get returns %.17g (C++ %.17g), registered parameter %s\n", pn[q].c_str(), sol.c_str(), a, b, memcmp(&before, &after, 8) ? "was overwritten" : "untouched"); break; } }
        // (one name buffer re-used for every C call, read with one name and written with the next)
        { static char NB[300]; for (size_t q = 0; q + 1 < pn.size() && q < 6; q++) { strcpy(NB, pn[q].c_str()); double g0 = masa_get_param(NB); (void)g0; strcpy(NB, pn[q + 1].c_str()); double before = masa_get_param<double>(pn[q]); masa_set_param(NB, 6.125 + q); n++;
            if (masa_get_param<double>(pn[q + 1]) != 6.125 + q || masa_get_param<double>(pn[q]) != before) printf("BAD masa_set_param through a re-used name buffer on %s: after get(%s), set(%s) wrote the wrong parameter\n", sol.c_str(), pn[q].c_str(), pn[q + 1].c_str()); }
          capture([] { masa_init_param<double>(); }); }
        for (auto& p : pn) { double a = masa_get_param(p.c_str()), b = masa_get_param<double>(p); n++; if (memcmp(&a, &b, 8)) printf("BAD masa_get_param(%s) on %s: C %.17g C++ %.17g\n", p.c_str(), sol.c_str(), a, b);
          double v = 0.5 + 0.25 * (++k); masa_set_param(p.c_str(), v); double c = masa_get_param<double>(p); n++; if (c != v) printf("BAD masa_set_param(%s) on %s: C++ reads %.17g after the C call set %.17g\n", p.c_str(), sol.c_str(), c, v); }
        o1 = capture([] { masa_display_array(); }); o2 = capture([] { masa_display_vec<double>(); }); n++; if (o1 != o2) printf("BAD masa_display_array on %s differs from masa_display_vec<double>\n", sol.c_str());
        { std::istringstream vs(o2); std::string line; while (std::getline(vs, line)) { size_t p = line.find(" is size: "); if (p == std::string::npos) continue; std::string vn = line.substr(0, p); std::vector<double> v; int st = masa_get_vec<double>(vn, v); double arr[512]; for (double& x : arr) x = -777; int m = -3; int sa = masa_get_array(vn.c_str(), &m, arr); n++;
            bool ok = sa == st && m == (int)v.size(); for (int i = 0; ok && i < m; i++) ok = memcmp(&arr[i], &v[i], 8) == 0; if (ok && arr[m] != -777) ok = false; if (!ok) printf("BAD masa_get_array(%s) on %s differs from masa_get_vec<double>\n", vn.c_str(), sol.c_str()); } }
        // array lengths through C: every vector set with masa_set_array at lengths around the powers of two up to 2^17 (+ 10^6) must read back,
        // through masa_get_vec<double>, exactly what masa_set_vec<double> would have stored; evaluators provided by the solution agree afterwards
        { std::vector<std::string> vns; { std::istringstream vs(o2); std::string line; while (std::getline(vs, line)) { size_t p = line.find(" is size: "); if (p != std::string::npos) vns.push_back(line.substr(0, p)); } }
          if (!vns.empty()) {
            std::vector<int> lens; for (int e = 1; e <= 17; e++) for (int dlt = -1; dlt <= 1; dlt++) lens.push_back((1 << e) + dlt); lens.push_back(1000000);
            const std::string& vn = vns[0];
            for (int len : lens) {
              std::vector<double> t(len); for (int i = 0; i < len; i++) t[i] = 0.5 + 0.25 * ((i * 7 + len) % 11);
              int nn = len; capture([&] { masa_set_array(vn.c_str(), &nn, t.data()); }); std::vector<double> back; capture([&] { masa_get_vec<double>(vn, back); }); n++;
              bool ok = back.size() == t.size() && (len == 0 || memcmp(back.data(), t.data(), sizeof(double) * len) == 0);
              if (!ok) { printf("BAD masa_set_array(%s, n=%d) on %s: masa_get_vec<double> then returns %zu entries%s\n", vn.c_str(), len, sol.c_str(), back.size(), back.size() == t.size() ? " with different contents" : ""); break; }
              std::vector<double> viaC(len + 1, -777.0); int m = -1; capture([&] { masa_get_array(vn.c_str(), &m, viaC.data()); }); n++;
              if (m != len || (len && memcmp(viaC.data(), t.data(), sizeof(double) * len)) || viaC[len] != -777.0) { printf("BAD masa_get_array(%s) on %s after setting %d entries: returns %d entries / different contents / writes beyond the end\n", vn.c_str(), sol.c_str(), len, m); break; }
            }
            capture([] { masa_init_param<double>(); });
          } }
        // the same failing lookup many times in a row: every repetition must answer like the first (status, untouched outputs)
        for (int rep = 0; rep < 12; rep++) {
          double arr[8]; for (double& x : arr) x = -777; int m = 777; int sa = 0; capture([&] { sa = masa_get_array("no_such_vector", &m, arr); }); std::vector<double> v(1, -777.0); int sv = 0; capture([&] { sv = masa_get_vec<double>("no_such_vector", v); }); n++;
          if (sa != sv || m != 777 || arr[0] != -777) { printf("BAD masa_get_array(unknown name) on %s, repetition %d: status %d (C++ %d), n=%d, buffer %s\n", sol.c_str(), rep + 1, sa, sv, m, arr[0] == -777 ? "untouched" : "written"); break; }
          double g1 = 0, g2 = 0; std::string o1g = capture([&] { g1 = masa_get_param("no_such_parameter"); }), o2g = capture([&] { g2 = masa_get_param<double>("no_such_parameter"); }); n++;
          if (memcmp(&g1, &g2, 8) || o1g != o2g) { printf("BAD masa_get_param(unknown name) on %s, repetition %d: C %.17g, C++ %.17g\n", sol.c_str(), rep + 1, g1, g2); break; }
        }
        int a1, a2; std::string q1 = capture([&] { a1 = masa_sanity_check(); }), q2 = capture([&] { a2 = masa_sanity_check<double>(); }); n++; if (a1 != a2 || q1 != q2) printf("BAD masa_sanity_check on %s: C %d C++ %d\n", sol.c_str(), a1, a2);
        a1 = masa_purge_default_param(); capture([&] { a2 = masa_sanity_check(); }); int a3; capture([&] { a3 = masa_sanity_check<double>(); }); n++; if (a2 != a3 || (a3 == 0 && !pn.empty())) printf("BAD purge/sanity through C on %s: C sanity %d, C++ sanity %d\n", sol.c_str(), a2, a3);
        a1 = masa_init_param(); capture([&] { a2 = masa_sanity_check<double>(); }); n++; if (a1 != 0 || a2 != 0) printf("BAD masa_init_param through C on %s: status %d, sanity afterwards %d\n", sol.c_str(), a1, a2);
      }
      fflush(stdout); ssize_t w = write(pfd[1], &n, sizeof n); (void)w; unlink(g_cap.c_str()); _exit(0);
    }
    close(pfd[1]); long n = 0; ssize_t r = read(pfd[0], &n, sizeof n); (void)r; close(pfd[0]); int st; waitpid(pid, &st, 0); total += n;
    if (!WIFEXITED(st) || WEXITSTATUS(st) != 0) printf("BAD evaluators on %s: process terminated (wait status %d)\n", sol.c_str(), st);
  }
  // handles are used verbatim by the C interface too: odd spellings registered through C must be listed, selectable through both
  // views and distinct from their trimmed / case-folded twins registered through C++
  {
    int pfd[2]; if (pipe(pfd)) return 2; fflush(stdout); pid_t pid = fork();
    if (pid == 0) { close(pfd[0]); long n = 0;
      const char* odd[] = {"run ", " run", "Run", "r-u n", "run--", "run  ", "", "run\t"};
      capture([] { masa_init<double>("run", "heateq_1d_steady_const"); masa_set_param<double>("A_x", 7.25); });
      for (const char* h : odd) {
        capture([&] { masa_init(h, "euler_1d"); }); n++;
        std::string nm; masa_get_name<double>(&nm); std::string l = capture([] { masa_list_mms<double>(); });
        if (nm != "euler_1d" || l.find(std::string(h) + " : euler_1d") == std::string::npos) printf("BAD C masa_init(\"%s\", euler_1d): handle not registered verbatim (selected=%s)\n", h, nm.c_str());
        capture([] { masa_select_mms<double>("run"); }); masa_get_name<double>(&nm); double ax = masa_get_param<double>("A_x"); n++;
        if (nm != "heateq_1d_steady_const" || ax != 7.25) printf("BAD C masa_init(\"%s\", ...) disturbed the distinct handle \"run\" (now %s, A_x=%g)\n", h, nm.c_str(), ax);
        capture([&] { masa_select_mms(h); }); masa_get_name<double>(&nm); n++;
        if (nm != "euler_1d") printf("BAD C masa_select_mms(\"%s\") selected %s\n", h, nm.c_str());
        capture([&] { masa_select_mms<double>(std::string(h)); }); masa_get_name<double>(&nm); n++;
        if (nm != "euler_1d") printf("BAD masa_select_mms<double>(\"%s\") after C init selected %s\n", h, nm.c_str());
      }
      fflush(stdout); ssize_t w = write(pfd[1], &n, sizeof n); (void)w; unlink(g_cap.c_str()); _exit(0); }
    close(pfd[1]); long n = 0; ssize_t r = read(pfd[0], &n, sizeof n); (void)r; close(pfd[0]); int st; waitpid(pid, &st, 0); total += n;
    if (!WIFEXITED(st) || WEXITSTATUS(st) != 0) printf("BAD odd handles through the C interface: process terminated (wait status %d)\n", st);
  }
  // status-returning wrappers on the self-test fixture, the one catalogue entry whose init_var reports a non-zero status
  {
    int pfd[2]; if (pipe(pfd)) return 2; fflush(stdout); pid_t pid = fork();
    if (pid == 0) { close(pfd[0]); capture([] { masa_init<double>("t", "masa_test_function"); }); int a = -1, b = -1; std::string oa = capture([&] { a = masa_init_param(); }), ob = capture([&] { b = masa_init_param<double>(); });
      if (a != b || oa != ob) printf("BAD masa_init_param on masa_test_function: C returns %d, C++ returns %d\n", a, b);
      if (b == 0) printf("BAD harness expectation: masa_init_param<double>() on the fixture was expected to report a non-zero status\n");
      int d1 = -5, d2 = -6; int s1 = masa_get_dimension(&d1), s2 = masa_get_dimension<double>(&d2); if (s1 != s2 || d1 != d2) printf("BAD masa_get_dimension on masa_test_function: C (%d,%d) vs C++ (%d,%d)\n", s1, d1, s2, d2);
      fflush(stdout); long n = 2; ssize_t w = write(pfd[1], &n, sizeof n); (void)w; unlink(g_cap.c_str()); _exit(0); }
    close(pfd[1]); long n = 0; ssize_t r = read(pfd[0], &n, sizeof n); (void)r; close(pfd[0]); int st; waitpid(pid, &st, 0); total += n;
    if (!WIFEXITED(st) || WEXITSTATUS(st) != 0) printf("BAD status wrappers on masa_test_function: process terminated (wait status %d)\n", st);
  }
  printf("TOTAL %ld\n", total); unlink(g_cap.c_str());
  return 0;
}
