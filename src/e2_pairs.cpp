// C19 history families under sanitizer / valgrind oracles.
//   --mode fork   : every history in its own forked child (normal exit => LeakSanitizer runs); used in the ASan/UBSan build
//   --mode inproc : histories executed one after another in this process (for valgrind memcheck)
//   --mode growth : live heap bytes after N re-initialisations / N fresh handles (operator new/delete accounting)
// History family F(S1,S2), for every ordered pair of catalogue solutions (or every single solution with --single):
//   init<d>(h1,S1); init<d>(h2,S2); display; sanity; every evaluator of the API once (provided or stub);
//   every vector of S2: get, set len 0, set len 3, get, C get_array/set_array with n in {0,1,3};
//   select h1, read all parameters; re-init h1 as S2 three times; the same inits in the long double registry; C get_name.
#include "api_gen.hpp"
#include <masa.h>
#include <cstdio>
#include <cstring>
#include <fcntl.h>
#include <iostream>
#include <sstream>
#include <string>
#include <sys/wait.h>
#include <unistd.h>
#include <vector>
#include <atomic>
#include <new>
using namespace MASA;
typedef long double LD;
static long g_live = 0, g_peak = 0; static bool g_count = false;
#ifdef E2_COUNT_NEW
void* operator new(size_t n) { size_t* p = (size_t*)malloc(n + 16); if (!p) throw std::bad_alloc(); p[0] = n; g_live += n; if (g_live > g_peak) g_peak = g_live; return (char*)p + 16; }
void operator delete(void* q) noexcept { if (!q) return; size_t* p = (size_t*)((char*)q - 16); g_live -= p[0]; free(p); }
void operator delete(void* q, size_t) noexcept { operator delete(q); }
#endif
static std::vector<std::string> names;
static void quiet() { int dn = open("/dev/null", O_WRONLY); dup2(dn, 1); close(dn); }
static std::vector<std::string> parse_names(const std::string& cat) { std::vector<std::string> v; std::istringstream is(cat); std::string l; bool in = false; while (std::getline(is, l)) { if (l.find("*---") != std::string::npos) { if (in) break; in = true; continue; } if (in && !l.empty()) v.push_back(l); } return v; }
static ApiArgs tuple0() { ApiArgs A; A.s[0] = 0.3125L; A.s[1] = 0.4375L; A.s[2] = 0.28125L; A.s[3] = 0.125L; A.i = 1; A.fd = [](double T) { return 2.75 + 0.25 * T; }; A.fl = [](LD T) { return 2.75L + 0.25L * T; }; return A; }
// arguments far outside the unit box (branches taken only for large |x|, e.g. the "integrate to infinity" branch of the radiation solution), mixed signs, invalid direction index
static ApiArgs tupleX() { ApiArgs A = tuple0(); A.s[0] = 2000.5L; A.s[1] = -3000.25L; A.s[2] = 0.0009765625L; A.s[3] = 5000.0L; A.i = 7; return A; }
static std::vector<std::string> vec_names_d() {  // from display_vec (stdout is a pipe here)
  std::vector<std::string> v; int pfd[2]; if (pipe(pfd)) return v; int saved = dup(1); fflush(stdout); std::cout.flush(); dup2(pfd[1], 1); masa_display_vec<double>(); std::cout.flush(); fflush(stdout); dup2(saved, 1); close(saved); close(pfd[1]);
  std::string s; char b[4096]; ssize_t n; while ((n = read(pfd[0], b, sizeof b)) > 0) s.append(b, n); close(pfd[0]);
  std::istringstream is(s); std::string l; while (std::getline(is, l)) { size_t p = l.find(" is size: "); if (p != std::string::npos) v.push_back(l.substr(0, p)); } return v;
}
static std::vector<std::string> par_names_d() {
  std::vector<std::string> v; int pfd[2]; if (pipe(pfd)) return v; int saved = dup(1); fflush(stdout); std::cout.flush(); dup2(pfd[1], 1); masa_display_param<double>(); std::cout.flush(); fflush(stdout); dup2(saved, 1); close(saved); close(pfd[1]);
  std::string s; char b[65536]; ssize_t n; while ((n = read(pfd[0], b, sizeof b)) > 0) s.append(b, n); close(pfd[0]);
  std::istringstream is(s); std::string l; while (std::getline(is, l)) { size_t p = l.find(" is set to:"); if (p != std::string::npos) v.push_back(l.substr(0, p)); } return v;
}
static long g_calls = 0;
static void history(const std::string& s1, const std::string& s2, const std::string& tag) {
  bool fixture2 = (s2 == "masa_test_function"), fixture1 = (s1 == "masa_test_function");
  std::string h1 = "h1" + tag, h2 = "h2" + tag;
  masa_init<double>(h1, s1); masa_init<double>(h2, s2); g_calls += 2;
  masa_display_param<double>(); masa_display_vec<double>(); if (!fixture2) masa_sanity_check<double>(); g_calls += 3;
  ApiArgs A = tuple0(), AX = tupleX(); for (int k = 0; k < API_N; k++) { API_TABLE[k].cd(A); API_TABLE[k].cd(AX); g_calls += 2; }
  // overloads with an integer argument (direction index, moment order): a range of integers around small tables and caches
  for (int k = 0; k < API_N; k++) if (strchr(API_TABLE[k].sig, 'I')) for (int iv : {0, 2, 3, 4, 8, 16, 31, 32, 33, 40, 64, 65, 128}) { ApiArgs B = A; B.i = iv; API_TABLE[k].cd(B); g_calls++; }
  // vector parameters: every length change is followed by a full sweep of the evaluators, so that an evaluator indexing a
  // vector by another vector's length (or by a scalar count) runs with every mixed-length configuration
  std::vector<std::string> vns = vec_names_d();
  for (int pass = 0; pass < 2; pass++) {
    for (int len : {0, 3, 30}) {
      for (size_t q = 0; q < vns.size(); q++) {
        const std::string& vn = vns[pass ? vns.size() - 1 - q : q];
        std::vector<double> v, t(len); for (int i = 0; i < len; i++) t[i] = 0.5 * (i + 1) + len;
        masa_get_vec<double>(vn, v); masa_set_vec<double>(vn, t); masa_get_vec<double>(vn, v); g_calls += 3;
        for (int k = 0; k < API_N; k++) { API_TABLE[k].cd(A); API_TABLE[k].cd(AX); g_calls += 2; }
      }
    }
    if (vns.empty()) break;
  }
  // two consecutive replacements without an evaluation in between -- the storage moves, the length ends where it started -- then a sweep:
  // a view or cache keyed on the length alone would now read freed memory
  for (auto& vn : vns) { std::vector<double> cur; masa_get_vec<double>(vn, cur); size_t L0 = cur.size();
    for (size_t mid : {2 * L0 + 40, (size_t)0, (size_t)1}) { std::vector<double> big(mid, 1.25), back(L0); for (size_t i = 0; i < L0; i++) back[i] = 0.75 + 0.125 * (i % 5);
      masa_set_vec<double>(vn, big); masa_set_vec<double>(vn, back); g_calls += 2;
      for (int k = 0; k < API_N; k++) { API_TABLE[k].cd(A); g_calls++; } } }
  for (auto& vn : vns) for (int n : {0, 1, 3}) { double arr[8] = {1, 2, 3, 4, 5, 6, 7, 8}; int nn = n; masa_set_array(vn.c_str(), &nn, arr); double out[64]; int m = 0; masa_get_array(vn.c_str(), &m, out); g_calls += 2; }
  { std::vector<double> v; masa_get_vec<double>("no_such_vector", v); double out[4]; int m = 0; masa_get_array("no_such_vector", &m, out); g_calls += 2; }
  masa_select_mms<double>(h1); for (auto& p : par_names_d()) { masa_get_param<double>(p); g_calls++; } masa_get_param<double>("no_such_parameter"); masa_set_param<double>("no_such_parameter", 1.0);
  if (!fixture1) { masa_purge_default_param<double>(); masa_init_param<double>(); }
  for (int r = 0; r < 3; r++) { masa_init<double>(h1, s2); g_calls++; }
  char buf[256]; masa_get_name(buf); int dim; masa_get_dimension(&dim); masa_list_mms<double>();
  masa_init<LD>(h1, s1); masa_init<LD>(h2, s2); masa_init<LD>(h1, s2); for (int k = 0; k < API_N; k += 3) { API_TABLE[k].cl(A); API_TABLE[k].cl(AX); g_calls += 2; } g_calls += 3;
  masa_printid<double>(); masa_init<double>(h2, s1); g_calls += 2;
}
// exit-time use: an application that registered its clean-up hook (atexit) or constructed its own static objects BEFORE its first MASA call
// may still use the library from that hook -- the registries must outlive it (they are library statics, constructed at load time)
static int g_hook_bad = 0;
static void exit_hook() {
  std::string nm; int dim = -1;
  masa_select_mms<double>("x1"); masa_get_name<double>(&nm); masa_get_dimension<double>(&dim); double v = masa_get_param<double>("u_0"); masa_list_mms<double>(); masa_list_mms<LD>();
  if (nm != "euler_1d" || dim != 1 || v != 7.25) { g_hook_bad = 1; fprintf(stderr, "exit hook: handle x1 no longer holds euler_1d with u_0 = 7.25 (name '%s', dim %d, u_0 %g)\n", nm.c_str(), dim, v); fflush(stderr); _exit(3); }
}
static int mode_atexit() {
  atexit(exit_hook);  // registered before the library is touched for the first time
  quiet();
  masa_init<double>("x1", "euler_1d"); masa_set_param<double>("u_0", 7.25); masa_init<double>("x2", "heateq_2d_steady_const"); masa_init<LD>("y1", "laplace_2d");
  exit(0);
}
int main(int argc, char** argv) {
  if (argc > 2 && std::string(argv[1]) == "--mode" && std::string(argv[2]) == "atexit") return mode_atexit();
  std::string mode = "fork", out; bool single = false; int stride = 1;
  for (int i = 1; i < argc; i++) { std::string a = argv[i]; if (a == "--mode") mode = argv[++i]; else if (a == "--out") out = argv[++i]; else if (a == "--single") single = true; else if (a == "--stride") stride = atoi(argv[++i]); }
  { int pfd[2]; if (pipe(pfd)) return 2; pid_t pid = fork(); if (pid == 0) { close(pfd[0]); dup2(pfd[1], 1); masa_printid<double>(); std::cout.flush(); _exit(0); } close(pfd[1]); std::string s; char b[4096]; ssize_t n; while ((n = read(pfd[0], b, sizeof b)) > 0) s.append(b, n); close(pfd[0]); int st; waitpid(pid, &st, 0); names = parse_names(s); }
  if (names.size() < 5) { fprintf(stderr, "e2_pairs: cannot read catalogue\n"); return 2; }
  FILE* fo = out.empty() ? stderr : fopen(out.c_str(), "w");
  std::vector<std::pair<int, int>> hist; int N = names.size();
  if (single) for (int i = 0; i < N; i++) hist.push_back({i, (i * 7 + 3) % N}); else for (int i = 0; i < N; i++) for (int j = 0; j < N; j++) hist.push_back({i, j});
  if (mode == "fork") {
    int running = 0, bad = 0; long total = 0;
    for (size_t k = 0; k < hist.size(); k += stride) {
      while (running >= 16) { int st; pid_t p = wait(&st); running--; if (p > 0 && (!WIFEXITED(st) || WEXITSTATUS(st) != 0)) { bad++; fprintf(fo, "BAD\tpid=%d\tstatus=%d\n", (int)p, st); } }
      fflush(fo); pid_t pid = fork();
      if (pid == 0) { quiet(); history(names[hist[k].first], names[hist[k].second], ""); std::cout.flush(); fflush(stdout); exit(0); }
      running++; total++;
      // reap finished children without blocking and record failures
      int st; pid_t p; while ((p = waitpid(-1, &st, WNOHANG)) > 0) { running--; if (!WIFEXITED(st) || WEXITSTATUS(st) != 0) { bad++; fprintf(fo, "BAD\tpid=%d\tstatus=%d\n", (int)p, st); } }
      fprintf(fo, "H\t%d\t%s\t%s\n", (int)pid, names[hist[k].first].c_str(), names[hist[k].second].c_str());
    }
    int st; pid_t p; while ((p = wait(&st)) > 0) { if (!WIFEXITED(st) || WEXITSTATUS(st) != 0) { bad++; fprintf(fo, "BAD\tpid=%d\tstatus=%d\n", (int)p, st); } }
    fprintf(fo, "TOTAL\t%ld\t%d\n", total, bad);
  } else if (mode == "inproc") {
    quiet(); long total = 0;
    for (size_t k = 0; k < hist.size(); k += stride) { history(names[hist[k].first], names[hist[k].second], "_" + std::to_string(k)); total++; }
    fprintf(fo, "TOTAL\t%ld\t%ld\n", total, g_calls);
  } else if (mode == "growth") {
    quiet();
    for (auto& s : names) {
      if (s == "masa_test_function") continue;
      // (a) re-initialising one handle must not grow the heap; (b) N fresh handles grow linearly with a slope independent of the catalogue size
      // (handle spelled with upper case, a dash and a blank: it is a handle, not a name, and is used verbatim)
      masa_init<double>("G-r " + s, s); long base = g_live; long after[4]; int reps[4] = {1, 2, 4, 8}; int done = 0;
      for (int q = 0; q < 4; q++) { while (done < reps[q]) { masa_init<double>("G-r " + s, s); done++; } after[q] = g_live - base; }
      long fresh0 = g_live; for (int q = 0; q < 8; q++) masa_init<double>("f" + std::to_string(q) + "_" + s, s); long slope = (g_live - fresh0) / 8;
      // footprint of one instance: measured by the registry itself = growth caused by the very first init of this handle family
      fprintf(fo, "G\t%s\t%ld\t%ld\t%ld\t%ld\t%ld\n", s.c_str(), after[0], after[1], after[2], after[3], slope);
    }
    long before = g_live; g_peak = g_live; masa_printid<double>(); long T = g_peak - before; for (int q = 0; q < 3; q++) masa_printid<double>();
    fprintf(fo, "P\tprintid\t%ld\t%ld\n", g_live - before, T);
  }
  if (fo != stderr) fclose(fo);
  return 0;
}
