// C02 / C03 reference (axisymmetric, coordinates r -> jet var 0, z -> jet var 1, t -> jet var 3):
// cylindrical conservation form with the 1/r terms, hoop stress, and the cylindrical Laplacian of T.
#include "e1.hpp"

namespace {
struct Cfg { const char* name; const char* prop; int kind; bool tr, visc; };
// kind 0: axisymmetric_euler fields; 1: transient fields (euler and cns); 2: axisymmetric_navierstokes_compressible fields
const Cfg CFG[] = {{"axisymmetric_euler", "C02", 0, 0, 0}, {"axi_euler_transient", "C02", 1, 1, 0},
                   {"axisymmetric_navierstokes_compressible", "C03", 2, 0, 1}, {"axi_cns_transient", "C03", 1, 1, 1}};

struct Out { VS rho, u, w, e; };

// variant 0: Newtonian stress tensor in cylindrical coordinates.
// variant 1 (known-finding signature "axi-visc-stress"): what the pinned library implements --
//   tau_rz = mu * du/dz (the dw/dr half is missing) and no hoop-stress term -tau_thetatheta/r in the radial momentum
//   equation; the energy equation uses the same truncated tau_rz.
// variant 2 (signature "axi-visc-work-sign", steady solution only): as variant 1, and the viscous work
//   div(tau.u) is *added* to the energy residual instead of subtracted.
Out residual(const RJ& rho, const RJ& u, const RJ& w, const RJ& p, const RJ& Rr, Q Gamma, bool visc, Q mu, Q k, Q Rg, int variant) {
  Out o;
  RJ et = p / ((Gamma - 1) * rho) + (u * u + w * w) / 2, H = et + p / rho;
  Q rr = Rr.v; VS rinv(1 / rr, 1 / qabs(rr));
  o.rho = d1(rho, 3) + d1(Rr * rho * u, 0) * rinv + d1(rho * w, 1);
  o.u = d1(rho * u, 3) + d1(Rr * rho * u * u, 0) * rinv + d1(rho * u * w, 1) + d1(p, 0);
  o.w = d1(rho * w, 3) + d1(Rr * rho * u * w, 0) * rinv + d1(rho * w * w, 1) + d1(p, 1);
  o.e = d1(rho * et, 3) + d1(Rr * rho * u * H, 0) * rinv + d1(rho * w * H, 1);
  if (visc) {
    RJ div = D(u, 0) + u / Rr + D(w, 1);
    RJ trr = mu * (2 * D(u, 0) - (Q(2) / 3) * div), ttt = mu * (2 * u / Rr - (Q(2) / 3) * div), tzz = mu * (2 * D(w, 1) - (Q(2) / 3) * div);
    RJ trz = variant == 0 ? RJ(mu * (D(u, 1) + D(w, 0))) : RJ(mu * D(u, 1));
    o.u = o.u - (d1(Rr * trr, 0) * rinv + d1(trz, 1));
    if (variant == 0) o.u = o.u + val(ttt) * rinv;
    o.w = o.w - (d1(Rr * trz, 0) * rinv + d1(tzz, 1));
    VS work = d1(Rr * (trr * u + trz * w), 0) * rinv + d1(trz * u + tzz * w, 1);
    o.e = (variant == 2) ? o.e + work : o.e - work;  // variant 2: viscous work enters with the opposite sign
    RJ T = p / (rho * Rg);
    o.e = o.e - k * (d2(T, 0, 0) + d1(T, 0) * rinv + d2(T, 1, 1));
  }
  return o;
}

bool axi_ref(const Cfg& c, const Params& P, const Pt& p, std::vector<Expect>& out) {
  RJ Rr = RJ::var(p.c[0], 0), Z = RJ::var(p.c[1], 1), T = RJ::var(p.c[3], 3);
  Q L = P("L");
  auto ph = [&](const char* a, const RJ& x) { return P(a) * PIq * x / L; };
  RJ rho, u, w, pr;
  if (c.kind == 0) {
    rho = RJ(P("rho_0")) + P("rho_r") * cos(ph("a_rhor", Rr)) + P("rho_z") * sin(ph("a_rhoz", Z));
    u = P("u_r") * P("u_z") * (cos(ph("a_ur", Rr)) - 1) * sin(ph("a_uz", Z));
    w = RJ(P("w_0")) + P("w_r") * cos(ph("a_wr", Rr)) + P("w_z") * sin(ph("a_wz", Z));
    pr = RJ(P("p_0")) + P("p_r") * sin(ph("a_pr", Rr)) + P("p_z") * cos(ph("a_pz", Z));
  } else if (c.kind == 1) {
    rho = RJ(P("rho_0")) + P("rho_r") * cos(ph("a_rhor", Rr)) + P("rho_z") * sin(ph("a_rhoz", Z)) + P("rho_t") * sin(ph("a_rhot", T));
    u = P("u_r") * (cos(ph("a_ur", Rr)) - 1) * (P("u_z") * sin(ph("a_uz", Z)) + P("u_t") * cos(ph("a_ut", T)));
    w = RJ(P("w_0")) + P("w_r") * cos(ph("a_wr", Rr)) + P("w_z") * sin(ph("a_wz", Z)) + P("w_t") * cos(ph("a_wt", T));
    pr = RJ(P("p_0")) + P("p_r") * sin(ph("a_pr", Rr)) + P("p_z") * cos(ph("a_pz", Z)) + P("p_t") * cos(ph("a_pt", T));
  } else {
    rho = RJ(P("rho_0")) + P("rho_1") * cos(ph("a_rhor", Rr)) * sin(ph("a_rhoz", Z));
    u = P("u_1") * (cos(ph("a_ur", Rr)) - 1) * sin(ph("a_uz", Z));
    w = RJ(P("w_0")) + P("w_1") * cos(ph("a_wr", Rr)) * sin(ph("a_wz", Z));
    pr = RJ(P("p_0")) + P("p_1") * sin(ph("a_pr", Rr)) * cos(ph("a_pz", Z));
  }
  const Q margin = Q(1) / 16;
  if (rho.v < margin || pr.v < margin) return false;
  Q mu = c.visc ? P("mu") : Q(0), k = c.visc ? P("k") : Q(0), Rg = c.visc ? P("R") : Q(1);
  Out o = residual(rho, u, w, pr, Rr, P("Gamma"), c.visc, mu, k, Rg, 0);
  const int* vars = c.tr ? V_XYT : V_XY; const char* s = c.tr ? "SSS" : "SS"; const char* prp = c.prop;
  std::vector<Expect> ex;
  ex.push_back(mk(prp, "source_rho", s, p, vars, o.rho));
  ex.push_back(mk(prp, c.tr ? "source_u" : "source_rho_u", s, p, vars, o.u));
  ex.push_back(mk(prp, c.tr ? "source_w" : "source_rho_w", s, p, vars, o.w));
  ex.push_back(mk(prp, c.tr ? "source_e" : "source_rho_e", s, p, vars, o.e));
  if (c.visc) {
    Out a = residual(rho, u, w, pr, Rr, P("Gamma"), c.visc, mu, k, Rg, 1);
    ex[1].alt_id = "axi-visc-stress"; ex[1].alt = a.u;
    ex[2].alt_id = "axi-visc-stress"; ex[2].alt = a.w;
    if (c.tr) { ex[3].alt_id = "axi-visc-stress"; ex[3].alt = a.e; }
    else { Out a2 = residual(rho, u, w, pr, Rr, P("Gamma"), c.visc, mu, k, Rg, 2); ex[3].alt_id = "axi-visc-work-sign"; ex[3].alt = a2.e; }
  }
  ex.push_back(mk(prp, "exact_rho", s, p, vars, val(rho)));
  ex.push_back(mk(prp, "exact_u", s, p, vars, val(u)));
  ex.push_back(mk(prp, "exact_w", s, p, vars, val(w)));
  ex.push_back(mk(prp, "exact_p", s, p, vars, val(pr)));
  for (auto& e : ex) out.push_back(e);
  return true;
}

// r > 0: radial coordinate values; z and t generic
const LD AXI_VALS[4][3] = {{dy(384), dy(1152), dy(2400)}, {dy(288), dy(1248), dy(2656)}, {0, 0, 0}, {dy(128), dy(800), dy(3168)}};

struct Reg {
  Reg() {
    for (const Cfg& c : CFG) {
      System s; s.name = c.name; s.prop = c.prop; s.dim = 2; s.singular_axis = 0;
      s.points = [c](int tier) {
        std::vector<int> vars = {0, 1}; if (c.tr) vars.push_back(3);
        std::vector<Pt> pts = grid(vars, tier ? 3 : 2, AXI_VALS);
        pts.push_back(Pt(7.28125L, -9.09375L, 0, 6.21875L));  // far from the axis, negative z
        pts.push_back(Pt(dy(384), 0, 0, 0, true));  // z = 0, t = 0 (r = 0 is outside the domain of the 1/r terms)
        return pts;
      };
      s.allow = [](const std::string& n, LD v) {
        if ((n == "L" || n == "R") && v == 0) return false;
        if (n == "Gamma" && (v == 1 || v == 0)) return false;
        return true;
      };
      s.reference = [c](const Params& P, const Pt& p, std::vector<Expect>& out) { return axi_ref(c, P, p, out); };
      s.max_dev_quick = 1; s.max_dev_thorough = 2;
      e1_systems().push_back(s);
    }
  }
} reg;
}  // namespace
