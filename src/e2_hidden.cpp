// C10 (a): hidden-state closure.  For every catalogue class and both scalar types: breadth-first search over the
// *hidden states* of one instance (all bytes of the object's heap block + contents of its registered vectors and
// parameters) under the alphabet {every evaluator the class provides x argument tuples}.  In every reachable hidden
// state, every (evaluator, tuple) must return the bits it returned in the initial state, and the parameter projection
// (all registered scalars and vectors) must stay what it was.  The search runs to a fixpoint, i.e. it covers evaluator
// histories of any length.  This TU includes the tree's masa_core.cpp to reach get_list_mms(); allocation is
// zero-filled (operator new -> calloc) and every replay runs in a child forked from the same pristine parent, so heap
// addresses and never-initialised members are reproducible.
#define VERIF_WITH_SLOTS 1
#include "masa_core.cpp"
#include "api_gen.hpp"
#include <algorithm>
#include <cstdio>
#include <cstring>
#include <functional>
#include <sstream>
#include <malloc.h>
#include <new>
#include <set>
#include <sys/wait.h>
#include <unistd.h>
#include <sys/mman.h>
// Deterministic allocation for replays: while arena_on, every operator new is served by a bump allocator over a region
// mapped once in the pristine parent (same address in every forked child, untouched zero pages), so the addresses stored
// inside the instance (map nodes, vector buffers, SSO pointers) are identical in every replay of the same history.
static char* ARENA = 0; static size_t ARENA_SIZE = 512u << 20, arena_off = 0; static bool arena_on = false;
void* operator new(size_t n) {
  if (arena_on) { size_t need = ((n ? n : 1) + 31) & ~size_t(15); if (arena_off + need > ARENA_SIZE) throw std::bad_alloc(); char* p = ARENA + arena_off; *(size_t*)p = n; arena_off += need; return p + 16; }
  void* p = calloc(1, n ? n : 1); if (!p) throw std::bad_alloc(); return p;
}
static bool in_arena(void* p) { return ARENA && (char*)p >= ARENA && (char*)p < ARENA + ARENA_SIZE; }
void operator delete(void* p) noexcept { if (!in_arena(p)) free(p); }
void operator delete(void* p, size_t) noexcept { if (!in_arena(p)) free(p); }
static size_t block_size(void* p) { return in_arena(p) ? *(size_t*)((char*)p - 16) : malloc_usable_size(p); }
typedef long double LD;
static uint64_t fnv(const void* d, size_t n, uint64_t h) { const unsigned char* p = (const unsigned char*)d; for (size_t i = 0; i < n; i++) { h ^= p[i]; h *= 1099511628211ULL; } return h; }
static ApiArgs args_tuple(int which) {
  ApiArgs A; const LD t[3][4] = {{0.3125L, 0.4375L, 0.28125L, 0.125L}, {1.078125L, 0.90625L, 1.21875L, 0.78125L}, {0.6875L, 0.15625L, 0.53125L, 0.40625L}};
  for (int k = 0; k < 4; k++) A.s[k] = t[which % 3][k]; A.i = 1 + which % 2; A.fd = [](double T) { return 2.75 + 0.25 * T; }; A.fl = [](LD T) { return 2.75L + 0.25L * T; }; return A;
}
template <class S> struct Inst {
  MASA::manufactured_solution<S>* o; std::vector<MASA::manufactured_solution<S>*> all;
  Inst(int ci) { arena_on = true; arena_off = 0; get_list_mms<S>(all); o = all[ci]; }
  std::string params() { std::string s; for (auto& kv : o->varmap) { S v = *o->vararr[kv.second]; s.append((const char*)&v, sizeof(S) == 8 ? 8 : 10); } for (auto& kv : o->vecmap) { auto* v = o->vecarr[kv.second]; s += "|" + std::to_string(v->size()) + ":"; for (S x : *v) s.append((const char*)&x, sizeof(S) == 8 ? 8 : 10); } return s; }
  std::string key() { size_t n = block_size(o); uint64_t a = fnv(o, n, 1469598103934665603ULL), b = fnv(o, n, 0x9e3779b97f4a7c15ULL); std::string p = params(); a = fnv(p.data(), p.size(), a); b = fnv(p.data(), p.size(), b); char buf[40]; snprintf(buf, sizeof buf, "%016llx%016llx", (unsigned long long)a, (unsigned long long)b); return buf; }
};
struct OpH { int api; int tuple; };
// call evaluator through the *virtual* interface of the object (the same path masa_eval_* takes after get_ms())
template <class S> static S call(MASA::manufactured_solution<S>* o, const ApiEntry& e, const ApiArgs& A);
#include "hidden_call_gen.hpp"

template <class S> static void explore(int ci, const std::string& name, const std::vector<OpH>& ops, FILE* out, const char* scal, int vector_variant) {
  std::cout.setstate(std::ios::failbit);
  auto prepare = [&](Inst<S>& I) {  // configuration under which the closure is taken (set, never evaluated)
    // variant 2: every scalar parameter moved off its default (x 17/16, zeros -> 1/16) through set_var, never evaluated:
    // exposes caches keyed on parameters and evaluators that "repair" derived parameters
    if (vector_variant == 2) { for (auto& kv : I.o->varmap) { S v = *I.o->vararr[kv.second]; I.o->set_var(kv.first, v == 0 ? (S)0.0625 : v * (S)1.0625); } return; }
    if (vector_variant) for (auto& kv : I.o->vecmap) { std::vector<S> v = {(S)1, (S)2, (S)6}; if (kv.first != "vec_data") { v = *I.o->vecarr[kv.second]; for (auto& x : v) x = x * (S)1.25; } I.o->set_vec(kv.first, v); }
  };
  // reference bits in the initial state: each (evaluator, tuple) on its own fresh instance (forked child)
  std::vector<std::string> ref(ops.size()); std::string p0, k0;
  auto in_child = [&](std::function<std::string()> f) -> std::string { int pfd[2]; if (pipe(pfd)) exit(2); fflush(out); pid_t pid = fork(); if (pid == 0) { close(pfd[0]); std::string s = f(); ssize_t w = write(pfd[1], s.data(), s.size()); (void)w; _exit(0); } close(pfd[1]); std::string s; char b[65536]; ssize_t n; while ((n = read(pfd[0], b, sizeof b)) > 0) s.append(b, n); close(pfd[0]); int st; waitpid(pid, &st, 0); if (!WIFEXITED(st) || WEXITSTATUS(st) != 0) return std::string("DIED:") + std::to_string(st); return s; };
  for (size_t k = 0; k < ops.size(); k++) ref[k] = in_child([&] { Inst<S> I(ci); prepare(I); S r = call<S>(I.o, API_TABLE[ops[k].api], args_tuple(ops[k].tuple)); return std::string((const char*)&r, sizeof(S) == 8 ? 8 : 10); });
  { std::string s = in_child([&] { Inst<S> I(ci); prepare(I); return I.key() + I.params(); }); k0 = s.substr(0, 32); p0 = s.substr(32); }
  std::set<std::string> seen = {k0}; std::vector<std::vector<int>> frontier = {{}}; long trans = 0, viol = 0; size_t maxdepth = 0;
  while (!frontier.empty()) {
    std::vector<std::vector<int>> next;
    for (auto& h : frontier) {
      // one child replays h, then forks a grandchild per operation
      std::string res = in_child([&] {
        Inst<S> I(ci); prepare(I); for (int j : h) call<S>(I.o, API_TABLE[ops[j].api], args_tuple(ops[j].tuple));
        std::string all;
        for (size_t k = 0; k < ops.size(); k++) {
          int pfd[2]; if (pipe(pfd)) _exit(2); pid_t g = fork();
          if (g == 0) { close(pfd[0]); S r = call<S>(I.o, API_TABLE[ops[k].api], args_tuple(ops[k].tuple)); std::string m((const char*)&r, sizeof(S) == 8 ? 8 : 10); m += I.key(); m += I.params(); ssize_t w = write(pfd[1], m.data(), m.size()); (void)w; _exit(0); }
          close(pfd[1]); std::string s; char b[65536]; ssize_t n; while ((n = read(pfd[0], b, sizeof b)) > 0) s.append(b, n); close(pfd[0]); int st; waitpid(g, &st, 0);
          size_t vs = sizeof(S) == 8 ? 8 : 10;
          if (!WIFEXITED(st) || WEXITSTATUS(st) != 0 || s.size() < vs + 32) { all += "D" + std::to_string(k) + "\n"; continue; }
          bool same_val = s.compare(0, vs, ref[k]) == 0; bool same_par = s.substr(vs + 32) == p0;
          all += std::string(same_val ? "v" : "V") + (same_par ? "p" : "P") + s.substr(vs, 32) + "\n";
        }
        return all; });
      std::istringstream is(res); std::string line; size_t k = 0;
      while (std::getline(is, line)) {
        trans++;
        std::string hist; for (int j : h) hist += std::string(API_TABLE[ops[j].api].name) + "/" + API_TABLE[ops[j].api].sig + "#" + std::to_string(ops[j].tuple) + " ; ";
        std::string opn = std::string(API_TABLE[ops[k].api].name) + "/" + API_TABLE[ops[k].api].sig + "#" + std::to_string(ops[k].tuple);
        if (line[0] == 'D') { viol++; fprintf(out, "V\t%s\t%s\t%s\t%s\tprocess terminated inside the evaluator\n", name.c_str(), scal, hist.c_str(), opn.c_str()); k++; continue; }
        if (line[0] == 'V') { viol++; fprintf(out, "V\t%s\t%s\t%s\t%s\treturns different bits than in the initial state\n", name.c_str(), scal, hist.c_str(), opn.c_str()); }
        if (line[1] == 'P') { viol++; fprintf(out, "V\t%s\t%s\t%s\t%s\tchanged a registered parameter or vector\n", name.c_str(), scal, hist.c_str(), opn.c_str()); }
        std::string key = line.substr(2);
        if (seen.insert(key).second && h.size() < 12) { auto h2 = h; h2.push_back(k); next.push_back(h2); if (h2.size() > maxdepth) maxdepth = h2.size(); }
        k++;
      }
    }
    frontier.swap(next);
  }
  fprintf(out, "C\t%s\t%s\t%d\t%zu\t%zu\t%ld\t%ld\t%zu\n", name.c_str(), scal, vector_variant, ops.size(), seen.size(), trans, viol, maxdepth);
}

int main(int argc, char** argv) {
  int tier = argc > 2 && !strcmp(argv[2], "thorough");
  FILE* out = fopen(argv[1], "w");
  ARENA = (char*)mmap(0, ARENA_SIZE, PROT_READ | PROT_WRITE, MAP_PRIVATE | MAP_ANONYMOUS | MAP_NORESERVE, -1, 0);
  if (ARENA == MAP_FAILED) { perror("mmap"); return 2; }
  api_fill_slots();
  std::vector<MASA::manufactured_solution<double>*> anim; { std::cout.setstate(std::ios::failbit); get_list_mms<double>(anim); std::cout.clear(); }
  MASA::manufactured_solution<double>* un = 0; for (auto* o : anim) { std::string n; o->return_name(&n); if (n == "masa_uninit") un = o; }
  // one worker process per catalogue class (16 at a time)
  std::vector<pid_t> running;
  for (size_t ci = 0; ci < anim.size(); ci++) {
    std::string n; anim[ci]->return_name(&n); if (n == "masa_uninit" || n == "masa_test_function") continue;
    std::vector<OpH> ops;
    for (int k = 0; k < API_N; k++) { if (API_TABLE[k].slot < 0) continue; void** vt = *(void***)anim[ci]; void** vu = *(void***)un; if (vt[API_TABLE[k].slot] == vu[API_TABLE[k].slot]) continue; for (int t = 0; t < (tier ? 3 : 2); t++) ops.push_back({k, t}); }
    while (running.size() >= 16) { int st; pid_t p = wait(&st); running.erase(std::remove(running.begin(), running.end(), p), running.end()); }
    fflush(out);
    pid_t pid = fork();
    if (pid == 0) {
      std::string wf = std::string(argv[1]) + "." + std::to_string(ci); FILE* fo = fopen(wf.c_str(), "w");
      bool has_vec = !anim[ci]->vecmap.empty();
      for (int vv = 0; vv <= 2; vv++) { if (vv == 1 && !has_vec) continue; explore<double>(ci, n, ops, fo, "d", vv); explore<LD>(ci, n, ops, fo, "ld", vv); }
      fclose(fo); _exit(0);
    }
    running.push_back(pid);
  }
  while (!running.empty()) { int st; pid_t p = wait(&st); running.erase(std::remove(running.begin(), running.end(), p), running.end()); }
  for (size_t ci = 0; ci < anim.size(); ci++) { std::string wf = std::string(argv[1]) + "." + std::to_string(ci); FILE* fi = fopen(wf.c_str(), "r"); if (!fi) continue; char b[65536]; size_t n; while ((n = fread(b, 1, sizeof b, fi)) > 0) fwrite(b, 1, n, out); fclose(fi); unlink(wf.c_str()); }
  fclose(out);
  return 0;
}
