NOTES = "All checks rebuild libmasa from /repo's working tree into a private scratch directory on every invocation; see DESIGN.md."
ENGINES = [
    {"name": "E1-lattice", "path": "src/e1_main.cpp", "serves_properties": ["C01", "C02", "C03", "C04", "C05", "C06", "C07", "C08", "C09", "C20"],
     "kind_free_text": "deviation-bounded exhaustive lattice explorer over (parameter assignment x point x scalar x evaluator) on the real library, float128 jet reference model"},
]
E1_NOTE = "trusted: the float128 second-order jet arithmetic (src/rj.hpp), the transcription of governing operator and documented field in src/ref_*.cpp, g++/libquadmath; bounded to the deviation alphabet and point lattice stated in the evidence"
E1_TECH = "bounded exhaustive enumeration (deviation-bounded parameter lattice x point lattice x scalar types) of real-library executions against a float128 jet reference model"
CHECKS["C01"] = dict(engine="E1-lattice", design_ref="2/C01", technique=E1_TECH, note=E1_NOTE,
    text="Every assignment with <=2 (quick) / <=3 (thorough) parameters deviating from a distinct non-zero base, at every lattice point, in both scalar types, for all 12 heat solutions: source_t (and exact_t where provided) equals the PDE residual of the documented field computed by float128 automatic differentiation, within 2^16 roundoffs of the operator's term magnitude.")
