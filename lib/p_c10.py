"""C10: evaluation is a pure function -- (a) hidden-state closure per class, (b) cross-handle exploration (E2 space c10)."""
import os, subprocess, sys, time
import vbuild, gen_api, p_e2, p_e3
from vcommon import Report, VERIF


def check(tier):
    rep = Report("C10", tier)
    b, exe, _ = p_e2.build_e2()
    gen = os.path.join(b.dir, "gen")
    # ---- (a) hidden-state closure (this TU includes the tree's masa_core.cpp; all other objects come from the same build)
    objs = [os.path.join(b.dir, s[:-4] + ".o") for s in vbuild.cc_sources() if s != "masa_core.cpp"]
    hid = os.path.join(b.dir, "e2_hidden")
    r = vbuild.run(["g++", "-std=gnu++17", "-O1", "-fno-access-control", "-Wno-pmf-conversions", "-w", "-DHAVE_CONFIG_H", "-I" + b.src, "-I" + gen,
                    os.path.join(VERIF, "src", "e2_hidden.cpp"), "-o", hid] + objs)
    if r.returncode != 0:
        sys.stderr.write("e2_hidden build failed:\n" + r.stdout[-4000:]); raise SystemExit(2)
    out = os.path.join(b.dir, "hidden.out")
    r = subprocess.run([hid, out, tier], stdout=subprocess.PIPE, stderr=subprocess.STDOUT, text=True)
    if r.returncode != 0:
        sys.stderr.write("e2_hidden failed rc=%d:\n%s" % (r.returncode, r.stdout[-3000:])); raise SystemExit(2)
    closures, hstates, htrans = [], 0, 0
    seen = set()
    for line in open(out, errors="replace"):
        f = line.rstrip("\n").split("\t")
        if f[0] == "C":
            c = {"solution": f[1], "scalar": f[2], "vector_variant": int(f[3]), "alphabet": int(f[4]), "hidden_states": int(f[5]), "transitions": int(f[6]), "violations": int(f[7]), "max_history": int(f[8])}
            closures.append(c); hstates += c["hidden_states"]; htrans += c["transitions"]
        elif f[0] == "V":
            key = (f[1], f[4], f[5])
            if key in seen:
                continue
            seen.add(key)
            rep.violation("hidden-state closure: %s<%s> after [%s] evaluator %s %s" % (f[1], f[2], f[3].strip(" ;"), f[4], f[5]),
                          {"engine": "e2_hidden", "solution": f[1], "scalar": f[2], "history": [x for x in f[3].split(" ; ") if x.strip()] + [f[4]], "message": f[5]})
    if len(closures) < 10:
        sys.stderr.write("e2_hidden produced too few closures (%d)\n" % len(closures)); raise SystemExit(2)
    caps = p_e3.build_caps(b, gen)
    # ---- (c) order-2 evaluation histories over a scaling-symmetric neighbourhood (stock library, public API only)
    o2 = os.path.join(b.dir, "e2_order2")
    b.compile_harness([os.path.join(VERIF, "src", "e2_order2.cpp")], o2, flags=["-O1", "-w"], incs=[gen])
    o2out = os.path.join(b.dir, "order2.out")
    r = subprocess.run([o2, caps, o2out, tier], stdout=subprocess.PIPE, stderr=subprocess.STDOUT, text=True)
    if r.returncode != 0:
        sys.stderr.write("e2_order2 failed rc=%d:\n%s" % (r.returncode, r.stdout[-2000:])); raise SystemExit(2)
    o2rows, o2hist, o2evals = [], 0, 0
    for line in open(o2out, errors="replace"):
        f = line.rstrip("\n").split("\t")
        if f[0] == "C":
            row = {"solution": f[1], "scalar": f[2], "parameters": int(f[3]), "evaluators": int(f[4]), "target_elements": int(f[5]), "histories": int(f[6]), "evaluations": int(f[7]), "violations": int(f[8]), "all_move_pairs": bool(int(f[9])), "library_aborted_elements": int(f[10]) if len(f) > 10 else 0}
            o2rows.append(row); o2hist += row["histories"]; o2evals += row["evaluations"]
        elif f[0] == "V":
            rep.violation("order-2 history: %s<%s> evaluator %s: %s" % (f[1], f[2], f[3], f[4]), {"engine": "e2_order2", "solution": f[1], "scalar": f[2], "evaluator": f[3], "message": f[4], "history": [f[4]]})
    if len(o2rows) < 20:
        sys.stderr.write("e2_order2 produced too few rows (%d)\n" % len(o2rows)); raise SystemExit(2)
    # ---- (b) cross-handle exploration through the public API
    D = {}
    for l in open(caps):
        f = l.split()
        if f and f[0] == "cap" and f[4] == "1":
            D.setdefault(f[1], []).append(f[2] + "/" + ("" if f[3] == "-" else f[3]))
    results = []
    sols = [s for s in D if s not in ("masa_test_function", "masa_uninit")]
    per = 90.0 if tier == "quick" else 900.0
    import concurrent.futures

    def one(s):
        ev = D[s]
        pick = ev[:: max(1, len(ev) // (6 if tier == "thorough" else 3))][: (6 if tier == "thorough" else 3)]
        return run_c10_space(exe, b, tier, s, ",".join(pick), per)

    with concurrent.futures.ThreadPoolExecutor(4) as ex:
        for res in ex.map(one, sols):
            p_e2.add_violations(rep, res, "C10")
            p_e2.eval_consistency(rep, res)
            results.append(res)
    p_e2.cover(rep, results, "; per solution: handles A,B (same type) and C (another type), double and long double registries, select/set_param/set_vec on any handle interleaved with evaluator calls; every evaluator value must be bit-identical for the same (solution, assignment) whatever the history or handle")
    rep.coverage["states"] += hstates; rep.coverage["transitions"] += htrans; rep.coverage["traces_validated_against_impl"] += htrans
    rep.coverage["states"] += o2hist; rep.coverage["transitions"] += o2evals; rep.coverage["traces_validated_against_impl"] += o2hist
    rep.coverage["order2_histories"] = o2hist; rep.coverage["order2_samples"] = sorted(o2rows, key=lambda r: -r["histories"])[:6]
    rep.coverage["hidden_state_closures"] = len(closures)
    rep.coverage["hidden_state_closure_samples"] = sorted(closures, key=lambda c: -c["hidden_states"])[:8]
    rep.coverage["hidden_states_total"] = hstates
    rep.assumptions += ["order-2 histories: moves restricted to parameter x {2,1/2,-1,8} and coordinate x {2,1/2}; all pairs of moves for solutions with <=32 (quick) / <=64 (thorough) parameters, (parameter, coordinate) pairs otherwise", "hidden state = all bytes of the instance's heap block plus its registered vectors; zero-filled allocation and fork-from-pristine make it reproducible",
                        "closure alphabet excludes set_param/set_vec (they define the configuration): default configuration and, for solutions with vectors, a configuration with vectors replaced but never evaluated"]
    return rep.finish()


def run_c10_space(exe, b, tier, sol, evals, deadline):
    out = os.path.join(b.dir, "c10_%s.out" % sol)
    if os.path.exists(out):
        os.unlink(out)
    cmd = [exe, "--space", "c10", "--tier", tier, "--out", out, "--jobs", str(max(2, vbuild.NCPU // 4)), "--deadline", str(deadline), "--solution", sol, "--evals", evals]
    r = subprocess.run(cmd, stdout=subprocess.PIPE, stderr=subprocess.STDOUT, text=True)
    if r.returncode != 0:
        sys.stderr.write("E2 c10 failed for %s rc=%d\n%s\n" % (sol, r.returncode, r.stdout[-2000:])); raise SystemExit(2)
    return p_e2.parse_out(out, "c10", sol)


def replay(path):
    from vcommon import replay_by_rerun
    return replay_by_rerun("C10", path, check)
