"""property id -> engine"""
import sys

E1_PROPS = {"C01", "C02", "C03", "C04", "C05", "C06", "C07", "C08", "C09", "C20"}


def run(prop, tier, replay):
    if prop in E1_PROPS:
        import p_e1
        return p_e1.replay(prop, replay) if replay else p_e1.check(prop, tier)
    if prop in ("C13", "C14", "C15"):
        import p_e3
        if replay:
            return p_e3.replay(prop, replay)
        return {"C13": p_e3.check_c13, "C14": p_e3.check_c14, "C15": p_e3.check_c15}[prop](tier)
    if prop == "C18":
        import p_c18
        return p_c18.replay(replay) if replay else p_c18.check(tier)
    if prop in ("C11", "C12", "C16", "C17"):
        import p_e2
        if replay:
            return p_e2.replay(prop, replay)
        return {"C11": p_e2.check_c11, "C12": p_e2.check_c12, "C16": p_e2.check_c16, "C17": p_e2.check_c17}[prop](tier)
    if prop == "C10":
        import p_c10
        return p_c10.replay(replay) if replay else p_c10.check(tier)
    if prop == "C19":
        import p_c19
        return p_c19.replay(replay) if replay else p_c19.check(tier)
    sys.stderr.write("no check implemented for %s\n" % prop)
    return 2
