"""property id -> engine"""
import sys

E1_PROPS = {"C01", "C02", "C03", "C04", "C05", "C06", "C07", "C08", "C09", "C20"}


def run(prop, tier, replay):
    if prop in E1_PROPS:
        import p_e1
        return p_e1.replay(prop, replay) if replay else p_e1.check(prop, tier)
    sys.stderr.write("no check implemented for %s\n" % prop)
    return 2
