"""E3 product enumerator driver (C13, C14, C15)."""
import json, os, subprocess, sys
import vbuild, gen_api
from vcommon import Report, VERIF


def build(variant="plain", extra=()):
    b = vbuild.Build(variant, extra_flags=extra).build()
    gen = os.path.join(b.dir, "gen"); os.makedirs(gen, exist_ok=True)
    gen_api.generate(os.path.join(b.src, "masa.h"), os.path.join(VERIF, "spec", "api_rule.tsv"), os.path.join(gen, "api_gen.hpp"))
    return b, gen


def build_caps(b, gen):
    """compile e3_caps (includes the tree's masa_core.cpp) against the other objects of the same build; run it"""
    objs = [os.path.join(b.dir, s[:-4] + ".o") for s in vbuild.cc_sources() if s != "masa_core.cpp"]
    exe = os.path.join(b.dir, "e3_caps")
    r = vbuild.run(["g++", "-std=gnu++17", "-fno-access-control", "-Wno-pmf-conversions", "-w", "-DHAVE_CONFIG_H", "-I" + b.src, "-I" + gen,
                    os.path.join(VERIF, "src", "e3_caps.cpp"), "-o", exe] + objs)
    if r.returncode != 0:
        sys.stderr.write("e3_caps build failed:\n" + r.stdout[-4000:]); raise SystemExit(2)
    caps = os.path.join(b.dir, "caps.txt")
    r = vbuild.run([exe, caps])
    if r.returncode != 0:
        sys.stderr.write("e3_caps failed:\n" + r.stdout[-2000:]); raise SystemExit(2)
    return caps


def build_e3(b, gen, name="e3"):
    exe = os.path.join(b.dir, name)
    b.compile_harness([os.path.join(VERIF, "src", "e3_main.cpp")], exe, flags=["-O1", "-w", "-pthread"], incs=[gen])
    return exe


def run_e3(exe, args, out):
    if os.path.exists(out):
        os.unlink(out)
    r = subprocess.run([exe, "--out", out] + args, stdout=subprocess.PIPE, stderr=subprocess.STDOUT, text=True)
    recs = []
    if os.path.exists(out):
        for line in open(out, errors="replace"):
            line = line.strip()
            if line:
                try:
                    recs.append(json.loads(line))
                except ValueError:
                    sys.stderr.write("E3: unparsable record: %s\n" % line[:300]); raise SystemExit(2)
    if r.returncode != 0:
        sys.stderr.write("E3 explorer failed rc=%d\n%s\n" % (r.returncode, r.stdout[-3000:])); raise SystemExit(2)
    return recs


def report_viols(rep, recs, prop):
    for v in recs:
        if v["k"] == "viol" and v["prop"] == prop:
            rp = dict(v); rp["engine"] = "e3"
            rep.violation(v["what"], rp)


def check_c13(tier):
    rep = Report("C13", tier)
    b, gen = build("plain")
    exe = build_e3(b, gen)
    recs = run_e3(exe, ["--mode", "c13", "--tier", tier], os.path.join(b.dir, "c13.out"))
    bx = vbuild.Build("exceptions", extra_flags=["-DMASA_EXCEPTIONS"], root=b.root).build()
    exx = os.path.join(bx.dir, "e3x")
    bx.compile_harness([os.path.join(VERIF, "src", "e3_main.cpp")], exx, flags=["-O1", "-w", "-pthread", "-DMASA_EXCEPTIONS"], incs=[gen])
    recs2 = run_e3(exx, ["--mode", "c13", "--tier", tier, "--exceptions"], os.path.join(bx.dir, "c13x.out"))
    a = [r for r in recs if r["k"] == "c13a"][0]
    bb = [r for r in recs2 if r["k"] == "c13b"][0]
    report_viols(rep, recs, "C13")
    # the exception build repeats part (a); only its masa_init-level violations are new
    for v in recs2:
        if v["k"] == "viol" and v.get("level") == "masa_init":
            rp = dict(v); rp["engine"] = "e3"; rp["build"] = "exceptions"; rep.violation(v["what"], rp)
    samples = [{"input": "euler--1d", "reference_normal_form": "euler1d -> not a name? no: 'euler_1d' keeps '_' so 'euler--1d' -> 'euler1d'"}]
    rep.coverage.update({
        "states": a["strings"] + bb["strings"], "transitions": a["strings"] + bb["strings"], "traces_validated_against_impl": a["strings"] + bb["strings"],
        "samples": [{"level": "masa_map", "strings": a["strings"], "normalise_to_a_catalogue_name": a["normalise_to_catalogue"], "not_names": a["not_names"]},
                    {"level": "masa_init (exception build)", "strings": bb["strings"], "accepted": bb["accepted"], "rejected_with_throw_1_and_unchanged_registry": bb["rejected"]},
                    {"example_decorations": ["euler--1d", " euler_1d", "EULER_1D-", "e-u-l-e-r_1d", "euler- -1d", "euler_1d---"]}],
        "rule": "every catalogue name x (<=2 insertion sites x 7 separator runs, 1-2 case flips, all-upper) plus non-names (single deletions/substitutions/insertions of '_','x','1', '_'->'-'/' '); each through the real masa_map and compared with the reference normaliser; the <=1-site sub-lattice and a strided slice of the rest through masa_init in the -DMASA_EXCEPTIONS build with 5 handle spellings",
        "exhaustive": True,
    })
    rep.assumptions += ["reference normaliser: lower-case, delete every '-' and ' '", "catalogue read from masa_printid of the tree under test"]
    return rep.finish()


def spec_caps():
    return os.path.join(VERIF, "spec", "capabilities.tsv")


def check_c14(tier):
    rep = Report("C14", tier)
    b, gen = build("plain")
    caps = build_caps(b, gen)
    exe = build_e3(b, gen)
    recs = run_e3(exe, ["--mode", "c14", "--caps", caps, "--spec", spec_caps()], os.path.join(b.dir, "c14.out"))
    report_viols(rep, recs, "C14")
    sols = [r for r in recs if r["k"] == "c14sol"]
    cat = [r for r in recs if r["k"] == "c14"]
    unc = [r["what"] for r in recs if r["k"] == "uncovered"]
    rep.coverage.update({
        "states": len(sols), "transitions": sum(r["calls"] for r in sols), "traces_validated_against_impl": sum(r["validated"] for r in sols),
        "samples": sols[:6] or [{"note": "none"}], "catalogue_size": cat[0]["catalogue"] if cat else 0, "uncovered": sorted(set(unc)),
        "rule": "state = (catalogue entry of masa_printid, scalar type) initialised in a fresh child process; every evaluator of the pinned capability table P (spec/capabilities.tsv) must still be in D (vtable-derived from the binary under test) and return a finite non-sentinel value at an interior point in every registry context and, in the fresh context, at all 4^arity points of the lattice {5/16, 1/2, 1, 3} of its scalar arguments",
        "exhaustive": True,
    })
    rep.assumptions += ["P = capability set and dimensions at the pinned commit (spec/capabilities.tsv, generated from the vtables and reviewed against doxygen)"]
    return rep.finish()


def check_c15(tier):
    rep = Report("C15", tier)
    b, gen = build("plain")
    caps = build_caps(b, gen)
    exe = build_e3(b, gen)
    recs = run_e3(exe, ["--mode", "c15", "--caps", caps, "--spec", spec_caps(), "--tier", tier], os.path.join(b.dir, "c15.out"))
    report_viols(rep, recs, "C15")
    sols = [r for r in recs if r["k"] == "c15sol"]
    rep.coverage.update({
        "states": sum(r["unprovided_pairs"] for r in sols), "transitions": sum(r["calls"] for r in sols), "traces_validated_against_impl": sum(r["validated"] for r in sols),
        "samples": sols[:5] or [{"note": "none"}], "solutions": len(sols),
        "rule": "state = (solution, public evaluator overload) pair that the binary under test does NOT provide (vtable slot equal to masa_uninit's); each called in double and long double at %d generic argument tuples in every registry context and, in the fresh context, at all 3^arity sign patterns {0,+,-} of its scalar arguments; must return exactly -1.33, print a (S)MASA ERROR line, keep the process alive and leave every parameter bit-identical" % (4 if tier == "thorough" else 2),
        "exhaustive": True,
    })
    rep.assumptions += ["forwarding rule source_X->eval_q_X, exact_X->eval_exact_X, grad_X->eval_g_X with the exceptions of spec/api_rule.tsv is normative"]
    return rep.finish()


def replay(prop, path):
    from vcommon import replay_by_rerun
    return replay_by_rerun(prop, path, {"C13": check_c13, "C14": check_c14, "C15": check_c15}[prop])
