"""Regenerate MANIFEST.json from the table below (kept in one place so it is always schema-valid)."""
import json, os
VERIF = os.path.dirname(os.path.dirname(os.path.abspath(__file__)))
MC = "model_checking"
CHECKS = {}   # id -> dict(text, note, technique, design_ref, engine)
NA = {}       # id -> reason
exec(open(os.path.join(VERIF, "spec", "manifest_table.py")).read())
ALL = ["C%02d" % i for i in range(1, 21)]
man = {
    "version": 1,
    "setup_cmd": "bin/setup",
    "hooks": {"guard": "MASA_VERIF", "enable": "no source hooks are needed: checks compile /repo/src as it is (optionally with -DMASA_EXCEPTIONS / sanitizers) and reach internals through the tree's own headers with -fno-access-control",
              "baseline_off_cmd": "cd /repo && make -k check", "source_commits": [], "add_only": True},
    "engines": ENGINES,
    "checks": [],
    "not_applicable": [],
    "notes": NOTES,
}
for pid in ALL:
    if pid in CHECKS:
        c = CHECKS[pid]
        man["checks"].append({
            "property_id": pid,
            "quick_cmd": "bin/check %s --tier quick" % pid,
            "thorough_cmd": "bin/check %s --tier thorough" % pid,
            "evidence_file": "evidence/%s.json" % pid,
            "replay_cmd_template": "bin/check %s --replay {path}" % pid,
            "engine": c["engine"],
            "level_claimed": {"category": MC, "text": c["text"], "design_ref": c["design_ref"]},
            "level_note": c["note"],
            "technique": c["technique"],
        })
    else:
        man["not_applicable"].append({"property_id": pid, "reason": NA.get(pid, "check not built yet in this round; design in DESIGN.md section 2")})
json.dump(man, open(os.path.join(VERIF, "MANIFEST.json"), "w"), indent=1)
print("MANIFEST.json: %d checks, %d not_applicable" % (len(man["checks"]), len(man["not_applicable"])))
