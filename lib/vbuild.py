"""Build the MASA tree under test (/repo working tree) into a private scratch directory.

Nothing is cached across invocations: every check compiles /repo/src as it is *now*.
Source list comes from src/Makefile.am (cc_sources), flags from /repo/Makefile (CXXFLAGS),
masa.h is regenerated from src/masa.h.in.
"""
import os, re, shutil, subprocess, sys, tempfile, atexit, concurrent.futures, time

REPO = os.environ.get("VERIF_REPO", "/repo")
VERIF = os.path.dirname(os.path.dirname(os.path.abspath(__file__)))
NCPU = int(os.environ.get("VERIF_JOBS", str(os.cpu_count() or 4)))

_scratch_dirs = []


def _cleanup():
    for d in _scratch_dirs:
        shutil.rmtree(d, ignore_errors=True)


atexit.register(_cleanup)


def _prune_stale(base, prefix, max_age_s=6 * 3600):
    """scratch directories of runs that were killed before their atexit cleanup (nothing a registered command needs lives there)"""
    now = time.time()
    try:
        for n in os.listdir(base):
            if n.startswith(prefix):
                p = os.path.join(base, n)
                try:
                    if os.path.isdir(p) and now - os.path.getmtime(p) > max_age_s:
                        shutil.rmtree(p, ignore_errors=True)
                except OSError:
                    pass
    except OSError:
        pass


def scratch(prefix="masa-verif-"):
    base = os.environ.get("VERIF_SCRATCH")
    if not base:
        base = "/dev/shm" if os.path.isdir("/dev/shm") and os.access("/dev/shm", os.W_OK) else tempfile.gettempdir()
    _prune_stale(base, prefix)
    d = tempfile.mkdtemp(prefix=prefix, dir=base)
    _scratch_dirs.append(d)
    return d


def cc_sources():
    txt = open(os.path.join(REPO, "src", "Makefile.am")).read()
    txt = txt.replace("\\\n", " ")
    out = []
    for m in re.finditer(r"^\s*cc_sources\s*\+?=\s*(.*)$", txt, re.M):
        out += m.group(1).split()
    # keep order, drop duplicates
    seen, res = set(), []
    for s in out:
        if s not in seen and s.endswith(".cpp"):
            seen.add(s)
            res.append(s)
    return res


def _config_status_subst():
    vals = {}
    p = os.path.join(REPO, "config.status")
    if os.path.exists(p):
        for m in re.finditer(r'^S\["([A-Za-z_0-9]+)"\]="(.*)"$', open(p, errors="replace").read(), re.M):
            vals[m.group(1)] = m.group(2)
    return vals


def tree_cxxflags():
    p = os.path.join(REPO, "Makefile")
    if os.path.exists(p):
        m = re.search(r"^CXXFLAGS\s*=\s*(.*)$", open(p, errors="replace").read(), re.M)
        if m:
            return m.group(1).split()
    return ["-O0"]


def stage_sources(dst):
    """Copy src/*.{cpp,h,hpp,in,f90,i} into dst/src, regenerate masa.h, provide config.h."""
    sdir = os.path.join(dst, "src")
    os.makedirs(sdir, exist_ok=True)
    rsrc = os.path.join(REPO, "src")
    for f in os.listdir(rsrc):
        if f.endswith((".cpp", ".h", ".hpp", ".in", ".f90", ".i", ".am")) and f != "masa.h":
            shutil.copy2(os.path.join(rsrc, f), os.path.join(sdir, f))
    subst = _config_status_subst()
    txt = open(os.path.join(rsrc, "masa.h.in")).read()

    def rep(m):
        k = m.group(1)
        if k in subst:
            return subst[k]
        return "0" if "VERSION" in k and "BUILD" not in k and k != "VERSION" else ""

    txt = re.sub(r"@([A-Za-z_0-9]+)@", rep, txt)
    open(os.path.join(sdir, "masa.h"), "w").write(txt)
    cfg = os.path.join(REPO, "config.h")
    if os.path.exists(cfg):
        shutil.copy2(cfg, os.path.join(sdir, "config.h"))
    else:
        open(os.path.join(sdir, "config.h"), "w").write('#define PACKAGE "masa"\n#define VERSION "0"\n')
    return sdir


def run(cmd, **kw):
    return subprocess.run(cmd, stdout=subprocess.PIPE, stderr=subprocess.STDOUT, text=True, **kw)


class Build:
    """One compiled variant of the tree under test."""

    def __init__(self, variant="plain", extra_flags=(), opt=None, root=None):
        self.variant = variant
        self.root = root or scratch()
        self.dir = os.path.join(self.root, "build-" + variant)
        os.makedirs(self.dir, exist_ok=True)
        self.src = os.path.join(self.root, "src")
        if not os.path.isdir(self.src):
            stage_sources(self.root)
        flags = tree_cxxflags()
        if opt is not None:
            flags = [f for f in flags if not f.startswith("-O")] + [opt]
        self.flags = flags + list(extra_flags) + ["-fPIC", "-DHAVE_CONFIG_H", "-I" + self.src]
        self.lib = os.path.join(self.dir, "libmasa.a")
        self.wall = 0.0

    def build(self):
        t0 = time.time()
        srcs = cc_sources()
        objs = []

        def one(s):
            o = os.path.join(self.dir, s[:-4] + ".o")
            r = run(["g++"] + self.flags + ["-c", os.path.join(self.src, s), "-o", o])
            return s, o, r

        with concurrent.futures.ThreadPoolExecutor(NCPU) as ex:
            for s, o, r in ex.map(one, srcs):
                if r.returncode != 0:
                    sys.stderr.write("BUILD FAILED for %s (variant %s):\n%s\n" % (s, self.variant, r.stdout[-4000:]))
                    raise SystemExit(2)
                objs.append(o)
        if os.path.exists(self.lib):
            os.unlink(self.lib)
        r = run(["ar", "rcs", self.lib] + objs)
        if r.returncode != 0:
            sys.stderr.write(r.stdout)
            raise SystemExit(2)
        self.wall = time.time() - t0
        return self

    def compile_harness(self, sources, out, flags=(), libs=(), incs=()):
        """Compile harness translation units in parallel and link against this build's libmasa.a."""
        t0 = time.time()
        objs = []
        base = ["g++", "-std=gnu++17", "-I" + self.src, "-I" + os.path.join(VERIF, "src")]
        base += ["-I" + i for i in incs] + list(flags)

        def one(s):
            o = os.path.join(self.dir, os.path.basename(out) + "-" + os.path.basename(s) + ".o")
            return s, o, run(base + ["-c", s, "-o", o])

        with concurrent.futures.ThreadPoolExecutor(NCPU) as ex:
            for s, o, r in ex.map(one, sources):
                if r.returncode != 0:
                    sys.stderr.write("HARNESS COMPILE FAILED for %s:\n%s\n" % (s, r.stdout[-6000:]))
                    raise SystemExit(2)
                objs.append(o)
        link_flags = [f for f in flags if f.startswith("-fsanitize") or f in ("-pthread",)]
        r = run(["g++"] + link_flags + ["-o", out] + objs + [self.lib] + list(libs))
        if r.returncode != 0:
            sys.stderr.write("HARNESS LINK FAILED:\n%s\n" % r.stdout[-6000:])
            raise SystemExit(2)
        return time.time() - t0
