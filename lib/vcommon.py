"""Shared pieces of the checks: evidence files, known findings, violation reporting."""
import json, os, sys, time

VERIF = os.path.dirname(os.path.dirname(os.path.abspath(__file__)))
EVID = os.environ.get("VERIF_EVIDENCE_DIR") or os.path.join(VERIF, "evidence")  # seeded-mutant runs redirect their evidence
REPLAY = os.path.join(EVID, "replay")


def seed():
    try:
        return int(os.environ.get("VERIF_SEED", "0"))
    except ValueError:
        return 0


def load_known():
    """known_findings.json: {"findings":[{"property","id","what",...}], "fixed":[{"property","commit","what","id"}]}"""
    p = os.path.join(VERIF, "known_findings.json")
    if not os.path.exists(p):
        return {"findings": [], "fixed": []}
    return json.load(open(p))


class Report:
    """Collects violations / known findings for one property run and writes evidence + exit status."""

    # replay-by-rerun: when set, finish() writes nothing and only reports whether the recorded violation recurs
    REPLAY_SUMMARY = None

    def __init__(self, prop, tier):
        self.prop, self.tier = prop, tier
        self.t0 = time.time()
        self.violations = []  # (summary, replay_dict)
        self.known_hits = {}  # finding id -> count
        self.coverage = {}
        self.assumptions = []
        self.notes = []
        kf = load_known()
        self.known = {f["id"]: f for f in kf.get("findings", []) if f.get("property") == prop or prop in f.get("also_affects", [])}
        os.makedirs(REPLAY, exist_ok=True)
        # remove stale replay files of this property
        for f in ([] if Report.REPLAY_SUMMARY is not None else os.listdir(REPLAY)):
            if f.startswith(prop + "-"):
                try:
                    os.unlink(os.path.join(REPLAY, f))
                except OSError:
                    pass

    def violation(self, summary, replay):
        self.violations.append((summary, replay))

    def finding_or_violation(self, finding_id, summary, replay):
        """A discrepancy that matched the *signature* of finding_id: known only if that id is listed."""
        if finding_id in self.known:
            self.known_hits[finding_id] = self.known_hits.get(finding_id, 0) + 1
        else:
            self.violation(summary + " [matches signature %s, which is not a listed finding]" % finding_id, replay)

    def finish(self, level="model_checking"):
        if Report.REPLAY_SUMMARY is not None:
            hit = [s for s, _ in self.violations if s.split(" [")[0] == Report.REPLAY_SUMMARY.split(" [")[0]]
            print("replay: %s" % ("violation reproduced: " + hit[0] if hit else "recorded violation does not occur on the current tree"))
            return 1 if hit else 0
        wall = time.time() - self.t0
        nviol = len(self.violations)
        paths = []
        for n, (summary, replay) in enumerate(self.violations[:25]):
            path = os.path.join(REPLAY, "%s-%d.json" % (self.prop, n))
            replay = dict(replay)
            replay.setdefault("property", self.prop)
            replay["summary"] = summary
            json.dump(replay, open(path, "w"), indent=1)
            paths.append(path)
        for fid, cnt in sorted(self.known_hits.items()):
            print("KNOWN-FINDING: property=%s %s [%s; matched %d lattice elements/histories]" % (self.prop, self.known[fid]["what"], fid, cnt))
        cov = dict(self.coverage)
        cov.setdefault("exhaustive", True)
        ev = {
            "property_id": self.prop,
            "tier": self.tier,
            "seed": seed(),
            "level": level,
            "coverage": cov,
            "assumptions": self.assumptions,
            "wall_s": round(wall, 3),
            "violations": nviol,
            "known_findings_matched": self.known_hits,
            "notes": self.notes,
        }
        os.makedirs(EVID, exist_ok=True)
        tmp = os.path.join(EVID, self.prop + ".json.tmp")
        json.dump(ev, open(tmp, "w"), indent=1)
        os.replace(tmp, os.path.join(EVID, self.prop + ".json"))
        for (summary, _), path in zip(self.violations, paths):
            print("  " + summary)
            print("VIOLATION property=%s replay=%s" % (self.prop, path))
        if nviol > len(paths):
            print("  (+%d further violations not written out)" % (nviol - len(paths)))
        print("%s %s: %s  states=%s transitions=%s validated=%s exhaustive=%s wall=%.1fs" % (
            self.prop, self.tier, "VIOLATED" if nviol else "held", cov.get("states"), cov.get("transitions"),
            cov.get("traces_validated_against_impl"), cov.get("exhaustive"), wall))
        return 1 if nviol else 0


def replay_by_rerun(prop, path, check_fn, tier="quick"):
    """Generic replay for enumerators whose cases are cheap: rebuild the tree, re-run the enumeration, look for the recorded case."""
    v = json.load(open(path))
    Report.REPLAY_SUMMARY = v.get("summary", "")
    rc = check_fn(tier)
    if rc == 1:
        print("VIOLATION property=%s replay=%s" % (prop, path))
    return rc
