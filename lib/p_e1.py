"""E1 lattice explorer driver (C01..C09): build tree, compile explorer, run, merge, report."""
import glob, json, os, subprocess, sys, time
import vbuild, gen_api
from vcommon import Report, VERIF, seed

SEMANTIC_K = 65536.0
E1_SOURCES = ["e1_main.cpp"] + sorted(os.path.basename(p) for p in glob.glob(os.path.join(VERIF, "src", "ref_*.cpp")))

# global deadlines (seconds) after which a tier reports the bound it completed with exhaustive:false
DEADLINE = {"quick": 240.0, "thorough": 3000.0}
# wall-clock budget of one whole thorough check (all base assignments and passes together); each explorer run gets an equal share of what is left
BUDGET = {"quick": 10 * 240.0, "thorough": 4500.0}


def constants():
    return json.load(open(os.path.join(VERIF, "spec", "constants.json")))


def build_e1(opt=None, variant="plain"):
    b = vbuild.Build(variant, opt=opt).build()
    gen = os.path.join(b.dir, "gen")
    os.makedirs(gen, exist_ok=True)
    gen_api.generate(os.path.join(b.src, "masa.h"), os.path.join(VERIF, "spec", "api_rule.tsv"), os.path.join(gen, "api_gen.hpp"))
    exe = os.path.join(b.dir, "e1")
    t = b.compile_harness([os.path.join(VERIF, "src", s) for s in E1_SOURCES], exe, flags=["-O1", "-g0", "-w"], libs=["-lquadmath"], incs=[gen])
    return b, exe, t


def run_e1(exe, prop, tier, out, K, extra=(), use_seed=None, deadline=None):
    cmd = [exe, "--prop", prop, "--tier", tier, "--seed", str(seed() if use_seed is None else use_seed), "--out", out, "--jobs", str(vbuild.NCPU),
           "--deadline", str(deadline or DEADLINE[tier]), "--K", repr(K)] + list(extra)
    r = subprocess.run(cmd, stdout=subprocess.PIPE, stderr=subprocess.STDOUT, text=True)
    recs = []
    if os.path.exists(out):
        for line in open(out, errors="replace"):
            line = line.strip()
            if not line:
                continue
            try:
                recs.append(json.loads(line))
            except ValueError:
                sys.stderr.write("E1: unparsable record: %s\n" % line[:200])
                raise SystemExit(2)
    if r.returncode != 0 or any(x["k"] == "crash" for x in recs):
        sys.stderr.write("E1 explorer failed (rc=%d):\n%s\n%s\n" % (r.returncode, r.stdout[-3000:], [x for x in recs if x["k"] == "crash"]))
        raise SystemExit(2)
    return recs


def merge(recs, rep, K, prop):
    systems = [x for x in recs if x["k"] == "system"]
    workers = [x for x in recs if x["k"] == "worker"]
    stats = {}
    for x in recs:
        if x["k"] == "stat":
            s = stats.setdefault(x["key"], {"n": 0, "maxratio": 0.0, "nviol": 0, "nknown": 0})
            s["n"] += x["n"]; s["maxratio"] = max(s["maxratio"], x["maxratio"]); s["nviol"] += x["nviol"]; s["nknown"] += x["nknown"]
    states = sum(w["states"] for w in workers)
    trans = sum(w["transitions"] for w in workers)
    comps = sum(w["comparisons"] for w in workers)
    inadm = sum(w["inadmissible"] for w in workers)
    timed_out = any(w["timed_out"] for w in workers)
    per_system = {}
    for s in systems:
        ws = [w for w in workers if w["system"] == s["system"]]
        stopped = min([w["stopped_at"] for w in ws if w["timed_out"]] or [s["assignments"]])
        completed = -1
        for d, end in enumerate(s["level_end"]):
            if end <= stopped and (d == 0 or end >= s["level_end"][d - 1]):
                completed = d if end > (s["level_end"][d - 1] if d else 0) or d == 0 else completed
        # completed deviation bound: largest d whose level_end <= stopped and that was requested
        comp = 0
        for d in range(4):
            if s["level_end"][d] <= stopped:
                comp = d
            if d < 3 and s["level_end"][d + 1] == s["level_end"][d]:
                break
        per_system[s["system"]] = {"parameters": s["nparams"], "alphabet_values": s["alphabet"], "points": s["points"],
                                   "assignments": s["assignments"], "zero_pair_assignments": s.get("zero_pairs", 0), "relation_assignments": s.get("relation_pairs", 0), "structured_assignments": s.get("structured", 0), "family_zero_sets": s.get("family_sets", 0), "default_centred_assignments": s.get("default_ball", 0), "zero_families": s.get("families", ""), "assignments_run": sum(w["done"] for w in ws), "boundary_point_elements": sum(w.get("boundary_point_elements", 0) for w in ws), "comparisons_skipped_out_of_range": sum(w.get("out_of_range", 0) for w in ws),
                                   "inadmissible_skipped": sum(w["inadmissible"] for w in ws), "inadmissible_points_skipped": sum(w.get("inadmissible_points", 0) for w in ws),
                                   "completed_deviation_bound": comp, "timed_out": any(w["timed_out"] for w in ws)}
    # violations
    viols = sorted([x for x in recs if x["k"] == "viol"], key=lambda v: (v["ndev"], v["system"], v["fn"]))
    seen = set()
    for v in viols:
        key = (v["system"], v["fn"], v["sig"], v["scalar"], v["prop"])
        if key in seen:
            continue
        seen.add(key)
        summary = "%s %s scalar=%s deviations=%d: lib=%s ref=%s ratio=%.3g (K=%g) %s" % (
            v["system"], v["call"], v["scalar"], v["ndev"], v["lib"][:24], v["ref"][:24], v["ratio"], v["K"], v["why"])
        rp = dict(v); rp["engine"] = "e1"; rp["property"] = prop
        rep.violation(summary, rp)
    # known-finding signatures matched
    for x in recs:
        if x["k"] == "known":
            fid = x["key"].split("|")[0]
            for _ in range(1):
                rep.finding_or_violation(fid, "discrepancy matching signature %s at %s" % (fid, x["key"]), {"engine": "e1", "signature": x["key"], "count": x["n"]})
            if fid in rep.known_hits:
                rep.known_hits[fid] += x["n"] - 1
    counts = {}
    for x in recs:
        if x["k"] == "count":
            counts[x["system"] + ":" + x["key"]] = counts.get(x["system"] + ":" + x["key"], 0) + x["n"]
    rep.coverage["model_branch_counts"] = counts
    uncovered = sorted(set((x["system"], x["fn"], x["sig"]) for x in recs if x["k"] == "uncovered"))
    samples = [x for x in recs if x["k"] == "sample"][:12]
    for s in samples:
        s.pop("k", None)
    worst = sorted(((k, v["maxratio"], v["n"]) for k, v in stats.items()), key=lambda t: -t[1])
    rep.coverage.update({
        "states": states, "transitions": trans, "traces_validated_against_impl": comps,
        "samples": samples or [{"note": "no numeric samples"}],
        "exhaustive": not timed_out,
        "rule": "state = (parameter assignment with <= d deviations from the distinct non-zero base) x lattice point x scalar type; transition = one library evaluator call; validated trace = one comparison |lib-ref| <= K*u*S against the float128 jet reference",
        "K": K, "systems": per_system, "inadmissible_assignments_skipped": inadm,
        "distinct_evaluator_keys": len(stats),
        "max_error_ratio_per_key_top": [{"key": k, "max_err_over_uS": r, "n": n} for k, r, n in worst[:40]],
        "uncovered_api": ["%s %s/%s" % u for u in uncovered],
        "caps_hit": "wall-clock budget of the check (%.0fs, shared by its explorer runs)" % BUDGET[rep.tier] if timed_out else "none",
    })
    return stats, per_system


def check(prop, tier):
    rep = Report(prop, tier)
    precision = (prop == "C09")
    K = float(constants()["C09_K"]) if precision else SEMANTIC_K
    variants = [("plain", None)]
    if precision and tier == "thorough":
        variants.append(("O2", "-O2"))
    allrecs, builds = [], []
    # thorough: all four vetted base assignments (seed, seed+1, seed+2, seed+3 mod 4); quick: the one selected by VERIF_SEED
    seeds = [(seed() + k) % 4 for k in range(4)] if tier == "thorough" else [seed() % 4]
    t_start = time.time()
    runs_left = [sum(len(seeds) if v == "plain" else 1 for v, _ in variants) + (1 if prop in ("C09", "C20") else 0)]

    def share():
        left = BUDGET[tier] - (time.time() - t_start)
        d = max(60.0, left / max(1, runs_left[0])); runs_left[0] -= 1
        return min(d, DEADLINE[tier])
    # the precision property does not need the d<=2 ball: its thorough tier is the thorough point lattice with d<=1 around all four bases,
    # the full-mantissa long double pass and the -O2 build
    main_extra = ["--maxdev", "1"] if (precision and tier == "thorough") else []
    for variant, opt in variants:
        b, exe, tcomp = build_e1(opt=opt, variant=variant)
        out = os.path.join(b.dir, "e1.out")
        for sd in (seeds if variant == "plain" else seeds[:1]):
            recs = run_e1(exe, prop, tier, out, K, use_seed=sd, extra=main_extra, deadline=share())
            if precision and variant == "plain" and sd == seeds[0]:
                # long-double-only pass with inputs that are not representable in double
                recs2 = run_e1(exe, prop, tier, out, K, use_seed=sd, extra=["--ldfull", "--maxdev", "1"], deadline=share())
                for r in recs2:
                    if r["k"] in ("system", "worker"):
                        r["system"] = r["system"] + "[ld62]"
                recs = recs + recs2
            if prop == "C20" and variant == "plain" and sd == seeds[0]:
                # the two library values of a reduction are also compared at working precision (both carry at most K(C09) u*S of
                # roundoff each), with full-mantissa long double inputs
                K20 = 2.0 * float(constants()["C09_K"])
                recs2 = run_e1(exe, prop, tier, out, K20, use_seed=sd, extra=["--ldfull", "--maxdev", "1"], deadline=share())
                for r in recs2:
                    if r["k"] in ("system", "worker"):
                        r["system"] = r["system"] + "[ld64,K=%g]" % K20
                recs = recs + recs2
            for r in recs:
                r["build"] = variant
                if r["k"] in ("system", "worker"):
                    r["system"] = "%s@base%d%s" % (r["system"], sd, "" if variant == "plain" else "/" + variant)
            allrecs += recs
        builds.append({"variant": variant, "cxxflags": " ".join(b.flags[:3]), "build_s": round(b.wall, 2), "harness_compile_s": round(tcomp, 2)})
    stats, per_system = merge(allrecs, rep, K, prop)
    if not stats:
        sys.stderr.write("E1: no comparisons were made for %s -- vacuous run is a harness error\n" % prop)
        raise SystemExit(2)
    rep.coverage["builds"] = builds
    rep.coverage["base_assignments"] = seeds
    rep.assumptions += ["reference models (governing operator applied to the documented field, float128 2nd-order jets) are correct transcriptions",
                        "parameter values restricted to the deviation alphabet around a distinct non-zero dyadic base; points to the dyadic lattice (all inputs exactly representable in double, long double and float128)"]
    if precision:
        rep.assumptions.append("K=%g is calibrated (8 x the largest ratio observed on the unchanged tree over the thorough lattice), not a derived error bound; S is the condition-aware sum of |leaf| magnitudes of the reference operator" % K)
        rep.coverage["observed_max_ratio"] = max(v["maxratio"] for v in stats.values())
        rep.assumptions.append("second pass 'ld62': every parameter and coordinate multiplied by (1+2^-48) resp. (1+2^-47) -- exactly representable in long double and float128 but not in double -- evaluated in the long double registry only")
    else:
        rep.assumptions.append("K=2^16 unit roundoffs of the scale S separates roundoff from algebraic error")
    return rep.finish()


def replay(prop, path):
    v = json.load(open(path))
    if prop == "C20" or "args" not in v or "params" not in v:
        from vcommon import replay_by_rerun
        return replay_by_rerun(prop, path, lambda tier: check(prop, tier))
    b, exe, _ = build_e1()
    txt = os.path.join(b.dir, "replay.txt")
    with open(txt, "w") as f:
        f.write("system %s\nfn %s\nsig %s\nscalar %s\nprop %s\nidx %d\ncb %d\n" % (v["system"], v["fn"], v["sig"] or "-", v["scalar"], v["prop"], v["idx"], v["cb"]))
        for i, a in enumerate(v["args"]):
            f.write("a%d %s\n" % (i, a))
        for k, val in v["params"].items():
            f.write("p:%s %s\n" % (k, val))
    r = subprocess.run([exe, "--replay", txt, "--K", repr(v.get("K", SEMANTIC_K)), "--out", os.path.join(b.dir, "replay.out")], stdout=subprocess.PIPE, stderr=subprocess.STDOUT, text=True)
    print(r.stdout.strip())
    if r.returncode == 1:
        print("VIOLATION property=%s replay=%s" % (prop, path))
    return r.returncode
