"""C19: no memory errors, UB or leaks for any explored API history -- the E2 explorers and history families under
AddressSanitizer + UndefinedBehaviorSanitizer + LeakSanitizer, Valgrind memcheck, and heap-growth accounting."""
import glob, os, re, subprocess, sys
import vbuild, gen_api, p_e2
from vcommon import Report, VERIF

SAN = ["-fsanitize=address,undefined", "-fno-sanitize-recover=undefined", "-fno-omit-frame-pointer", "-g1", "-D_GLIBCXX_ASSERTIONS"]  # libstdc++ assertions: out-of-range operator[] inside retained capacity aborts


def san_env(logbase, leaks=True):
    env = dict(os.environ)
    env["ASAN_OPTIONS"] = "detect_leaks=%d:" % (1 if leaks else 0) + "log_path=%s:exitcode=23:allocator_may_return_null=1:detect_stack_use_after_return=0" % logbase
    env["UBSAN_OPTIONS"] = "print_stacktrace=1:halt_on_error=1:exitcode=24:log_path=%s" % logbase
    env["LSAN_OPTIONS"] = "exitcode=23:print_suppressions=0"
    return env


def digest(report_text):
    """first error line + first library frame of a sanitizer report"""
    lines = report_text.split("\n")
    head = next((l.strip() for l in lines if "ERROR:" in l or "runtime error:" in l or "SUMMARY:" in l), "sanitizer report")
    frame = next((l.strip() for l in lines if re.search(r"#\d+ .*(masa|MASA)", l) and "e2_" not in l), "")
    return (head + " | " + frame)[:400]


def check(tier):
    rep = Report("C19", tier)
    states = trans = 0
    samples = []
    # ---------------------------------------------------------------- sanitizer build
    b = vbuild.Build("asan", extra_flags=SAN).build()
    gen = os.path.join(b.dir, "gen"); os.makedirs(gen, exist_ok=True)
    gen_api.generate(os.path.join(b.src, "masa.h"), os.path.join(VERIF, "spec", "api_rule.tsv"), os.path.join(gen, "api_gen.hpp"))
    p_e2.gen_c_evals(open(os.path.join(b.src, "cmasa.cpp")).read(), os.path.join(gen, "c_eval_gen.hpp"))
    e2 = os.path.join(b.dir, "e2san")
    b.compile_harness([os.path.join(VERIF, "src", "e2_main.cpp")], e2, flags=["-O1", "-w"] + SAN, incs=[gen])
    pairs = os.path.join(b.dir, "e2_pairs_san")
    b.compile_harness([os.path.join(VERIF, "src", "e2_pairs.cpp")], pairs, flags=["-O1", "-w"] + SAN, incs=[gen])
    logbase = os.path.join(b.dir, "san")
    env = san_env(logbase)            # history families: one leak check per history
    env_noleak = san_env(logbase, False); env_noleak["E2_PLAIN_STATE_KEY"] = "1"  # sanitizer runs: state = observation (the call-order refinement is C12's job)  # E2 spaces: memory errors and UB on every transition (a leak check per transition costs ~50 ms each)

    def collect_logs(tag, history_of=None):
        n = 0
        for f in sorted(glob.glob(logbase + ".*")):
            txt = open(f, errors="replace").read()
            os.unlink(f)
            if not txt.strip():
                continue
            n += 1
            pid = f.rsplit(".", 1)[1]
            hist = history_of(pid) if history_of else None
            if n <= 40:
                rep.violation("%s: %s%s" % (tag, digest(txt), (" | history: " + " ; ".join(hist)) if hist else ""),
                              {"engine": "c19", "oracle": "asan/ubsan/lsan", "where": tag, "history": hist, "report_head": txt[:1500]})
        return n

    # (1) E2 spaces under the sanitizers (every transition's process exits normally so that LeakSanitizer runs)
    spaces = [("c16" if tier == "thorough" else "c12", None), ("c12h", None), ("c17", None)] + [("c11", s) for s in (["radiation_integrated_intensity", "cp_normal", "euler_1d"] if tier == "quick" else ["radiation_integrated_intensity", "cp_normal", "euler_1d", "navierstokes_4d_compressible_powerlaw", "fans_sa_steady_wall_bounded", "sod_1d", "navierstokes_ablation_1d_steady", "heateq_3d_unsteady_var"])]
    results = []
    for sp, sol in spaces:
        out = os.path.join(b.dir, "%s_%s.out" % (sp, sol or "x"))
        res = p_e2.run_space(e2, sp, "quick", out, solution=sol, env=env_noleak, deadline=p_e2.DEADLINE[tier] / 3)
        # model-level violations are reported by C11/C12/C17; here only abnormal terminations count
        p_e2.add_violations(rep, res, "C19", build="asan", only=lambda m: "terminated" in m or "abnormally" in m or "wait status" in m)
        collect_logs("E2 space %s%s under ASan/UBSan/LSan" % (sp, "/" + sol if sol else ""))
        results.append(res)
        states += res["summary"]["states"]; trans += res["summary"]["transitions"]
    # all registry operation sequences up to depth 5 (nothing merged) under the sanitizers: a use after free needs no wrong answer to be seen
    res = p_e2.run_space(e2, "c12s", "quick", os.path.join(b.dir, "c12s_san.out"), env=env_noleak, deadline=p_e2.DEADLINE[tier] / 2, extra=["--seqdepth", "5"])
    p_e2.add_violations(rep, res, "C19", build="asan", only=lambda m: "terminated" in m or "abnormally" in m or "wait status" in m or "process ended" in m)
    collect_logs("all registry sequences up to depth 5 under ASan/UBSan")
    results.append(res); states += res["summary"]["states"]; trans += res["summary"]["transitions"]
    if True:
        # misuse continued *through* the failure: exception build under ASan/UBSan (a failed call that left a dangling selection or a
        # half-destroyed instance is used again by the following transitions)
        bx = vbuild.Build("asanx", extra_flags=SAN + ["-DMASA_EXCEPTIONS"], root=b.root).build()
        e2x = os.path.join(bx.dir, "e2sanx")
        bx.compile_harness([os.path.join(VERIF, "src", "e2_main.cpp")], e2x, flags=["-O1", "-w", "-DMASA_EXCEPTIONS"] + SAN, incs=[gen])
        for spx in (["c16n", "c16v", "c16"] if tier == "thorough" else ["c16n", "c16v"]):
            res = p_e2.run_space(e2x, spx, "quick", os.path.join(bx.dir, spx + "x.out"), env=env_noleak, deadline=p_e2.DEADLINE[tier] / 3)
            p_e2.add_violations(rep, res, "C19", build="asan+exceptions", only=lambda m: "terminated" in m or "abnormally" in m or "wait status" in m)
            collect_logs("E2 space %s (exception build) under ASan/UBSan" % spx)
            results.append(res); states += res["summary"]["states"]; trans += res["summary"]["transitions"]
    samples.append({"oracle": "ASan+UBSan+LSan on E2 spaces", "spaces": [{"space": r["space"], "solution": r["solution"], **r["summary"]} for r in results]})
    # (1b) exit-time use of the library from a hook registered before the first MASA call (ASan build: a use after free is reported)
    r = subprocess.run([pairs, "--mode", "atexit"], stdout=subprocess.PIPE, stderr=subprocess.STDOUT, text=True, env=env)
    states += 1; trans += 9
    if r.returncode != 0:
        rep.violation("exit-time hook registered before the first MASA call: the library is no longer usable from it (exit status %d): %s" % (r.returncode, digest(r.stdout) if r.stdout else ""),
                      {"engine": "c19", "oracle": "asan/ubsan + state check", "history": ["atexit(hook)", "masa_init(x1,euler_1d)", "set_param(u_0,7.25)", "masa_init(x2,...)", "masa_init<ld>(y1,...)", "exit(0) -> hook: select/get_name/get_param/list"], "report_head": r.stdout[:1500]})
        collect_logs("exit-time hook")
    # (2) history families: every ordered pair of catalogue solutions (thorough) / every solution with a partner (quick)
    pout = os.path.join(b.dir, "pairs.out")
    args = [pairs, "--mode", "fork", "--out", pout] + (["--single"] if tier == "quick" else [])
    r = subprocess.run(args, stdout=subprocess.PIPE, stderr=subprocess.STDOUT, text=True, env=env)
    pid2hist, total, bad = {}, 0, []
    for line in open(pout):
        f = line.rstrip("\n").split("\t")
        if f[0] == "H":
            pid2hist[f[1]] = ["init(h1,%s)" % f[2], "init(h2,%s)" % f[3], "...family F(S1,S2) of src/e2_pairs.cpp"]
        elif f[0] == "BAD":
            bad.append(line.strip())
        elif f[0] == "TOTAL":
            total = int(f[1])
    if r.returncode != 0 or total == 0:
        sys.stderr.write("e2_pairs (sanitizer) failed: %s\n" % r.stdout[-2000:]); raise SystemExit(2)
    nlogs = collect_logs("history family F(S1,S2) under ASan/UBSan/LSan", lambda pid: pid2hist.get(pid))
    if bad and not nlogs:
        for bl in bad[:10]:
            pid = re.search(r"pid=(\d+)", bl).group(1)
            rep.violation("history family F: process ended abnormally (%s) %s" % (bl, pid2hist.get(pid)), {"engine": "c19", "oracle": "asan", "history": pid2hist.get(pid)})
    states += total; trans += total * 260
    samples.append({"oracle": "ASan+UBSan+LSan on history families", "histories": total, "family": "init(h1,S1); init(h2,S2); display; sanity; all 117 evaluators; every vector set to lengths 0/3/30 one at a time in both orders with a full evaluator sweep after each change, C arrays n in {0,1,3}; select; get all; purge; init_param; re-init x3; long double registry; printid"})
    # ---------------------------------------------------------------- valgrind memcheck on the uninstrumented build
    bp = vbuild.Build("plain", root=b.root).build()
    genp = os.path.join(bp.dir, "gen"); os.makedirs(genp, exist_ok=True)
    gen_api.generate(os.path.join(bp.src, "masa.h"), os.path.join(VERIF, "spec", "api_rule.tsv"), os.path.join(genp, "api_gen.hpp"))
    pv = os.path.join(bp.dir, "e2_pairs")
    bp.compile_harness([os.path.join(VERIF, "src", "e2_pairs.cpp")], pv, flags=["-O0", "-g1", "-w"], incs=[genp])
    vout = os.path.join(bp.dir, "vg.out"); vlog = os.path.join(bp.dir, "vg.log")
    vargs = ["valgrind", "-q", "--error-exitcode=9", "--leak-check=full", "--errors-for-leak-kinds=definite", "--show-leak-kinds=definite", "--num-callers=12", "--log-file=" + vlog,
             pv, "--mode", "inproc", "--out", vout, "--single"] + (["--stride", "3"] if tier == "quick" else [])
    r = subprocess.run(vargs, stdout=subprocess.PIPE, stderr=subprocess.STDOUT, text=True)
    vtxt = open(vlog, errors="replace").read() if os.path.exists(vlog) else ""
    vtot = 0
    if os.path.exists(vout):
        for line in open(vout):
            f = line.split("\t")
            if f[0] == "TOTAL":
                vtot = int(f[1])
    if r.returncode == 9 or "== Invalid" in vtxt or "uninitialised" in vtxt or "definitely lost" in vtxt:
        errs = [l for l in vtxt.split("\n") if re.search(r"==\d+== (Invalid|Conditional|Use of uninit|Syscall param|\d[\d,]* bytes in .* definitely lost)", l)]
        first = errs[0] if errs else "valgrind reported errors"
        frame = next((l.strip() for l in vtxt.split("\n") if re.search(r"(by|at) 0x.*MASA", l)), "")
        rep.violation("valgrind memcheck on the history families: %s | %s (%d error lines)" % (re.sub(r"==\d+== ", "", first), re.sub(r"==\d+== ", "", frame), len(errs)),
                      {"engine": "c19", "oracle": "valgrind", "report_head": vtxt[:3000]})
    elif r.returncode != 0 or vtot == 0:
        sys.stderr.write("valgrind run failed rc=%d: %s\n%s\n" % (r.returncode, r.stdout[-1000:], vtxt[-1000:])); raise SystemExit(2)
    states += vtot; trans += vtot * 260
    samples.append({"oracle": "valgrind memcheck (uninitialised reads, invalid accesses, definite leaks)", "histories_in_process": vtot})
    # ---------------------------------------------------------------- heap growth accounting
    pg = os.path.join(bp.dir, "e2_pairs_count")
    bp.compile_harness([os.path.join(VERIF, "src", "e2_pairs.cpp")], pg, flags=["-O0", "-w", "-DE2_COUNT_NEW"], incs=[genp])
    gout = os.path.join(bp.dir, "growth.out")
    r = subprocess.run([pg, "--mode", "growth", "--out", gout], stdout=subprocess.PIPE, stderr=subprocess.STDOUT, text=True)
    if r.returncode != 0:
        sys.stderr.write("growth run failed: %s\n" % r.stdout[-1000:]); raise SystemExit(2)
    slopes, T, growth = {}, 0, []
    for line in open(gout):
        f = line.rstrip("\n").split("\t")
        if f[0] == "G":
            after = [int(x) for x in f[2:6]]; slopes[f[1]] = int(f[6]); growth.append({"solution": f[1], "live_bytes_after_1_2_4_8_reinits": after, "bytes_per_fresh_handle": int(f[6])})
            states += 1; trans += 16
            if after[3] > after[0] + 64 or after[3] > 256:
                rep.violation("heap grows with re-initialisation of one handle: %s live bytes after 1,2,4,8 re-inits = %s" % (f[1], after), {"engine": "c19", "oracle": "growth", "history": ["init(g,%s)" % f[1]] * 9, "live_bytes": after})
        elif f[0] == "P":
            T = int(f[3])
            if int(f[2]) != 0:
                rep.violation("masa_printid leaves %s bytes allocated" % f[2], {"engine": "c19", "oracle": "growth", "history": ["printid"] * 4})
    tot = sum(slopes.values())
    if slopes and tot > 1.25 * T + 512 * len(slopes):
        worst = max(slopes.items(), key=lambda kv: kv[1])
        rep.violation("memory per masa_init on a fresh handle grows with the catalogue: sum of per-handle growth over all solutions = %d bytes, footprint of one whole catalogue = %d bytes (worst: %s %d bytes per init)" % (tot, T, worst[0], worst[1]),
                      {"engine": "c19", "oracle": "growth", "history": ["init(f0,%s)" % worst[0], "init(f1,%s)" % worst[0], "..."], "slopes": slopes, "catalogue_footprint": T})
    samples.append({"oracle": "heap growth accounting (operator new/delete)", "catalogue_footprint_bytes": T, "sum_bytes_per_fresh_handle": tot, "examples": growth[:4]})
    rep.coverage.update({
        "states": states, "transitions": trans, "traces_validated_against_impl": states,
        "samples": samples,
        "rule": "histories = all transitions of the closed E2 spaces (registry, C/C++ mixed, parameter store incl. vector length changes) + the family F(S1,S2) for every ordered pair (thorough) / every solution (quick) of the catalogue, each in its own process under ASan+UBSan with LeakSanitizer at normal exit; the same family in-process under valgrind memcheck; live-heap accounting for 1,2,4,8 re-inits and 8 fresh handles per solution. transitions for history families are estimated as 260 API calls per history",
        "exhaustive": True,
    })
    rep.assumptions += ["sanitizers/valgrind see only what executes: padding reads that never influence control flow or output are invisible", "vector lengths restricted to {0,1,3,30} (set one vector at a time, in both orders, each change followed by a full evaluator sweep)"]
    return rep.finish()


def replay(path):
    from vcommon import replay_by_rerun
    return replay_by_rerun("C19", path, check)
