"""E2 explicit-state explorer driver (C11, C12, C16, C17; C19 and C10 reuse it)."""
import json, os, re, subprocess, sys, time
import vbuild, gen_api
from vcommon import Report, VERIF

DEADLINE = {"quick": 200.0, "thorough": 2400.0}
VECTOR_SOLUTIONS = ("radiation_integrated_intensity", "cp_normal")


def gen_c_evals(cmasa_text, path):
    """table of every extern "C" evaluator defined in cmasa.cpp: symbol -> (C++ short name, sig)"""
    L = ["// GENERATED from the tree's cmasa.cpp", "extern \"C\" {"]
    rows = []
    for m in re.finditer(r'extern\s+"C"\s+double\s+(masa_eval_(\d)d_(\w+))\s*\(([^)]*(?:\([^)]*\)[^)]*)*)\)\s*\{', cmasa_text):
        sym, nd, short, args = m.group(1), m.group(2), m.group(3), m.group(4)
        a2 = re.sub(r"double\s*\(\s*\*\s*\w*\s*\)\s*\(\s*double\s*\)", "FN", args)
        sig, decl, call, k = "", [], [], 0
        for a in [x.strip() for x in a2.split(",") if x.strip()]:
            if a.startswith("FN"):
                sig += "F"; decl.append("double (*)(double)"); call.append("A.fd")
            elif a.startswith("int"):
                sig += "I"; decl.append("int"); call.append("A.i")
            else:
                sig += "S"; decl.append("double"); call.append("(double)A.s[%d]" % k); k += 1
        L.append("double %s(%s);" % (sym, ", ".join(decl)))
        rows.append((sym, short, sig, "%s(%s)" % (sym, ", ".join(call))))
    L.append("}")
    L.append("static const CEval C_EVALS[] = {")
    for sym, short, sig, call in rows:
        L.append('  {"%s", "%s", "%s", [](const ApiArgs& A) -> double { return %s; }},' % (sym, short, sig, call))
    L.append("};")
    open(path, "w").write("\n".join(L) + "\n")
    return rows


def build_e2(variant="plain", lib_flags=(), harness_flags=(), name="e2", root=None, opt=None):
    b = vbuild.Build(variant, extra_flags=lib_flags, root=root, opt=opt).build()
    gen = os.path.join(b.dir, "gen"); os.makedirs(gen, exist_ok=True)
    gen_api.generate(os.path.join(b.src, "masa.h"), os.path.join(VERIF, "spec", "api_rule.tsv"), os.path.join(gen, "api_gen.hpp"))
    rows = gen_c_evals(open(os.path.join(b.src, "cmasa.cpp")).read(), os.path.join(gen, "c_eval_gen.hpp"))
    exe = os.path.join(b.dir, name)
    b.compile_harness([os.path.join(VERIF, "src", "e2_main.cpp")], exe, flags=["-O1", "-w"] + list(harness_flags), incs=[gen])
    return b, exe, rows


def run_space(exe, space, tier, out, solution=None, env=None, deadline=None, extra=()):
    for f in (out,):
        if os.path.exists(f):
            os.unlink(f)
    cmd = [exe, "--space", space, "--tier", tier, "--out", out, "--jobs", str(vbuild.NCPU), "--deadline", str(deadline or DEADLINE[tier])] + list(extra)
    if solution:
        cmd += ["--solution", solution]
    r = subprocess.run(cmd, stdout=subprocess.PIPE, stderr=subprocess.STDOUT, text=True, env=env)
    if r.returncode != 0 or not os.path.exists(out):
        sys.stderr.write("E2 explorer failed rc=%d (space %s %s)\n%s\n" % (r.returncode, space, solution or "", r.stdout[-3000:]))
        raise SystemExit(2)
    return parse_out(out, space, solution)


def parse_out(out, space, solution):
    ops, prefix, viols, trans, evals, hist, summary, harness = {}, [], [], [], [], {}, None, []
    for line in open(out, errors="replace"):
        f = line.rstrip("\n").split("\t")
        if f[0] == "O":
            ops[int(f[1])] = f[2]
        elif f[0] == "P":
            prefix.append(f[1])
        elif f[0] == "V":
            viols.append((int(f[1]), int(f[2]), "\t".join(f[3:])))
        elif f[0] == "T":
            trans.append((int(f[1]), int(f[2]), int(f[3]), int(f[4])))
        elif f[0] == "E":
            ef = "\t".join(f[3:]).split("\\t")
            evals.append((int(f[1]), int(f[2]), ef[0], ef[1] if len(ef) > 1 else "", ef[2] if len(ef) > 2 else ""))
        elif f[0] == "N":
            hist[int(f[1])] = [int(x) for x in f[2].split(",") if x]
        elif f[0] == "H":
            harness.append(line.strip())
        elif f[0] == "Z":
            summary = {"states": int(f[1]), "transitions": int(f[2]), "depth": int(f[3]), "closed": bool(int(f[4])), "timed_out": bool(int(f[5])), "depth_bound": int(f[6]) if len(f) > 6 else 1000}
    if harness:
        sys.stderr.write("E2 replay divergence (harness error, not a violation):\n" + "\n".join(harness[:5]) + "\n")
        raise SystemExit(2)
    if summary is None:
        sys.stderr.write("E2: explorer wrote no summary\n"); raise SystemExit(2)
    return {"ops": ops, "prefix": prefix, "viols": viols, "trans": trans, "evals": evals, "hist": hist, "summary": summary, "space": space, "solution": solution}


def history_text(res, state, op):
    h = list(res["prefix"]) + [res["ops"][k] for k in res["hist"].get(state, [])]
    if op >= 0:
        h.append(res["ops"][op])
    return h


def add_violations(rep, res, prop, build="exit", only=None):
    seen = set()
    # shortest histories first
    for (st, op, msg) in sorted(res["viols"], key=lambda v: (len(res["hist"].get(v[0], [])), v[0], v[1])):
        key = re.sub(r"0x[0-9a-fp.+-]+", "#", msg)[:120] + "|" + (res["ops"].get(op, "") if op >= 0 else "")
        if only and not only(msg):
            continue
        if key in seen:
            continue
        seen.add(key)
        hist = history_text(res, st, op)
        idx = res["hist"].get(st, []) + ([op] if op >= 0 else [])
        if st == -2:  # all-sequences exploration: the history is carried in the message
            m = re.search(r"\[history ([0-9,]+)\]", msg)
            if m:
                idx = [int(x) for x in m.group(1).split(",") if x]
                hist = list(res["prefix"]) + [res["ops"][k] for k in idx]
        rp = {"engine": "e2", "space": res["space"], "solution": res["solution"], "build": build, "tier": rep.tier, "history": hist,
              "op_indices": idx, "message": msg}
        rep.violation("[%s%s, %d-step history] %s" % (res["space"], ("/" + res["solution"]) if res["solution"] else "", len(hist), msg[:400]), rp)


def eval_consistency(rep, res):
    """every EVAL observed at the same visible assignment must be bit-identical whatever the history (differential purity)"""
    groups = {}
    for (st, op, key, fn, val) in res["evals"]:
        groups.setdefault((key, fn), {}).setdefault(val, []).append((st, op))
    n = 0
    for (key, fn), vals in groups.items():
        n += sum(len(v) for v in vals.values())
        if len(vals) > 1:
            items = sorted(vals.items(), key=lambda kv: -len(kv[1]))
            (st, op) = items[1][1][0]
            rep.violation("evaluator %s returns different values at the same parameter assignment depending on history: %s" % (fn, [v for v, _ in items][:3]),
                          {"engine": "e2", "space": res["space"], "history": history_text(res, st, op), "op_indices": res["hist"].get(st, []) + [op], "assignment": key[:300]})
    return n, len(groups)


def cover(rep, results, extra_rule=""):
    st = sum(r["summary"]["states"] for r in results)
    tr = sum(r["summary"]["transitions"] for r in results)
    # a space is completely explored when it closed (fixpoint) or, for the depth-bounded sweeps, when every history up to the bound was run
    closed = all(r["summary"]["closed"] or r["summary"]["depth"] >= r["summary"].get("depth_bound", 1000) for r in results)
    timed = any(r["summary"]["timed_out"] for r in results)
    samples = []
    for r in results[:3]:
        deepest = max(r["hist"].items(), key=lambda kv: len(kv[1]))[0] if r["hist"] else 0
        samples.append({"space": r["space"], "solution": r["solution"], "alphabet_size": len(r["ops"]), "alphabet_head": [r["ops"][k] for k in sorted(r["ops"])[:12]],
                        "a_deepest_shortest_history": history_text(r, deepest, -1), "states": r["summary"]["states"], "max_depth": r["summary"]["depth"]})
    rep.coverage.update({
        "states": st, "transitions": tr, "traces_validated_against_impl": tr,
        "samples": samples, "closed_fixpoint": closed, "exhaustive": closed and not timed,
        "spaces": [{"space": r["space"], "solution": r["solution"], **r["summary"], "alphabet": len(r["ops"])} for r in results],
        "rule": "state = canonical observation of the complete visible state (both registries: handles, selection, every parameter bit-exact, every vector, sanity) reached by replaying the shortest history in a fresh process; transition = one API operation executed on the real library in a forked grandchild and on the reference map model; BFS to a fixpoint" + extra_rule,
        "caps_hit": "deadline" if timed else "none",
    })


def check_c12(tier):
    rep = Report("C12", tier)
    b, exe, _ = build_e2()
    res = run_space(exe, "c12", tier, os.path.join(b.dir, "c12.out"))
    add_violations(rep, res, "C12")
    n, g = eval_consistency(rep, res)
    results = [res]
    # every operation sequence of a small registry alphabet up to depth 5 (quick) / 6 (thorough), nothing merged
    ress = run_space(exe, "c12s", tier, os.path.join(b.dir, "c12s.out"), extra=["--seqdepth", "6" if tier == "thorough" else "5"])
    add_violations(rep, ress, "C12")
    results.append(ress)
    resw = run_space(exe, "c12w", tier, os.path.join(b.dir, "c12w.out"))
    add_violations(rep, resw, "C12")
    results.append(resw)
    resh = run_space(exe, "c12h", tier, os.path.join(b.dir, "c12h.out"))
    add_violations(rep, resh, "C12")
    results.append(resh)
    resr = run_space(exe, "c12r", tier, os.path.join(b.dir, "c12r.out"))
    add_violations(rep, resr, "C12")
    nr, gr = eval_consistency(rep, resr); n += nr; g += gr
    results.append(resr)
    if tier == "thorough":
        res2 = run_space(exe, "c12v", tier, os.path.join(b.dir, "c12v.out"))
        add_violations(rep, res2, "C12")
        n2, g2 = eval_consistency(rep, res2); n += n2; g += g2
        results.append(res2)
    # every catalogue solution x every provided evaluator x both scalar types: two handles holding the same solution with different parameters --
    # the evaluator must follow the selection (part (e) of src/e2_order2.cpp, shared with C10)
    import p_e3, gen_api
    caps = p_e3.build_caps(b, os.path.join(b.dir, "gen"))
    o2 = os.path.join(b.dir, "e2_order2")
    b.compile_harness([os.path.join(VERIF, "src", "e2_order2.cpp")], o2, flags=["-O1", "-w"], incs=[os.path.join(b.dir, "gen")])
    o2out = os.path.join(b.dir, "order2sel.out")
    r = subprocess.run([o2, caps, o2out, tier], stdout=subprocess.PIPE, stderr=subprocess.STDOUT, text=True, env=dict(os.environ, O2_SELECTION_ONLY="1"))
    if r.returncode != 0:
        sys.stderr.write("e2_order2 (selection part) failed rc=%d:\n%s" % (r.returncode, r.stdout[-2000:])); raise SystemExit(2)
    nsel = 0
    for line in open(o2out, errors="replace"):
        f = line.rstrip("\n").split("\t")
        if f[0] == "C":
            nsel += int(f[4]) * 2
        elif f[0] == "V":
            rep.violation("two handles, one solution: %s<%s> evaluator %s: %s" % (f[1], f[2], f[3], f[4]), {"engine": "e2_order2", "part": "selection", "solution": f[1], "scalar": f[2], "evaluator": f[3], "message": f[4], "history": [f[4]]})
    cm = os.path.join(b.dir, "c12_many")
    b.compile_harness([os.path.join(VERIF, "src", "c12_many.cpp")], cm, flags=["-O1", "-w"])
    nmany = 70000 if tier == "thorough" else 700
    r = subprocess.run([cm, str(nmany)], stdout=subprocess.PIPE, stderr=subprocess.STDOUT, text=True)
    for line in r.stdout.split("\n"):
        if line.startswith("BAD "):
            rep.violation("many handles: " + line[4:300], {"engine": "c12_many", "message": line[4:400], "history": ["%d handles registered, then each selected again" % nmany]})
    if r.returncode != 0 or "TOTAL" not in r.stdout:
        sys.stderr.write("c12_many failed rc=%d: %s\n" % (r.returncode, r.stdout[-1000:])); raise SystemExit(2)
    namesf = os.path.join(b.dir, "catalogue_names.txt")
    open(namesf, "w").write("\n".join(solutions_list(b)) + "\n")
    r = subprocess.run([cm, "0", namesf], stdout=subprocess.PIPE, stderr=subprocess.STDOUT, text=True)
    npairs = 0
    for line in r.stdout.split("\n"):
        if line.startswith("BAD "):
            rep.violation("re-initialisation matrix: " + line[4:400], {"engine": "c12_many", "message": line[4:500], "history": [line[4:200]]})
        elif line.startswith("TOTAL "):
            npairs = int(line.split()[1])
    if r.returncode != 0 or npairs == 0:
        sys.stderr.write("c12_many (pairs) failed rc=%d: %s\n" % (r.returncode, r.stdout[-1000:])); raise SystemExit(2)
    cover(rep, results)
    rep.coverage["reinitialisation_pairs"] = npairs
    rep.coverage["states"] += npairs; rep.coverage["transitions"] += 2 * npairs; rep.coverage["traces_validated_against_impl"] += npairs
    rep.coverage["handles_in_one_registry"] = nmany
    rep.coverage["states"] += nmany; rep.coverage["transitions"] += 4 * nmany; rep.coverage["traces_validated_against_impl"] += nmany
    rep.coverage["two_handle_evaluator_checks"] = nsel
    rep.coverage["states"] += nsel; rep.coverage["transitions"] += nsel; rep.coverage["traces_validated_against_impl"] += nsel
    rep.coverage["eval_observations"] = n; rep.coverage["distinct_assignments_evaluated"] = g
    rep.assumptions += ["alphabet: handles {a,b} x solutions {euler_1d, heateq_2d_steady_const} x one parameter per solution with values {default, 7.5} x both registries (quick: reduced alphabet on the long double registry); space c12s: ALL operation sequences of an 11-operation (thorough: 13) registry alphabet up to depth 5 (thorough: 6) without state merging -- hidden library state cannot hide behind an equal observation; space c12h: handles {h2,h10,h3,H3} (orders differ between lexicographic, numeric and case-insensitive comparison); space c12r: handles {a,b} holding the radiation solution, every vector replaceable, re-initialisation with the same and another solution, init_param",
                        "reference model: map handle -> (solution, parameter map) + selection, per registry; defaults captured from a fresh process"]
    return rep.finish()


CATALOGUE_CACHE = {}


def catalogue(exe_dir_build):
    return None


def solutions_list(b):
    """catalogue names of the tree under test (from masa_printid via the E3 binary if present, else from the spec)"""
    names = []
    for l in open(os.path.join(VERIF, "spec", "capabilities.tsv")):
        if l.startswith("sol "):
            names.append(l.split()[1])
    return names


def check_c11(tier):
    rep = Report("C11", tier)
    b, exe, _ = build_e2()
    # catalogue of the tree under test
    import p_e3
    gen = os.path.join(b.dir, "gen")
    e3 = p_e3.build_e3(b, gen)
    r = subprocess.run([e3, "--mode", "catalogue", "--out", os.path.join(b.dir, "cat.out")], stdout=subprocess.PIPE, text=True)
    sols = [s for s in r.stdout.split() if s not in ("masa_test_function", "masa_uninit")]
    if len(sols) < 5:
        sys.stderr.write("C11: could not read the catalogue\n"); raise SystemExit(2)
    results = []
    t0 = time.time()
    per = max(5.0, (DEADLINE[tier] - 30) / len(sols))
    for s in sols:
        # the two solutions with vector parameters have by far the largest spaces: their own budget
        res = run_space(exe, "c11", tier, os.path.join(b.dir, "c11.out"), solution=s, deadline=(per * 12 if s in VECTOR_SOLUTIONS else per))
        add_violations(rep, res, "C11")
        results.append(res)
        resl = run_space(exe, "c11l", tier, os.path.join(b.dir, "c11l.out"), solution=s, deadline=per)
        add_violations(rep, resl, "C11")
        results.append(resl)
        if tier == "thorough":
            for sp in ("c11all", "c11allp"):
                res = run_space(exe, sp, tier, os.path.join(b.dir, "c11.out"), solution=s, deadline=per)
                add_violations(rep, res, "C11")
                results.append(res)
    # the radiation evaluators as a function of all entries of the vectors last set (closed form / storage-order invariance)
    cv = os.path.join(b.dir, "c11_vectors")
    b.compile_harness([os.path.join(VERIF, "src", "c11_vectors.cpp")], cv, flags=["-O1", "-w"])
    r = subprocess.run([cv], stdout=subprocess.PIPE, stderr=subprocess.STDOUT, text=True)
    ncfg = ncmp = 0
    for line in r.stdout.split("\n"):
        if line.startswith("BAD "):
            rep.violation(line[4:400], {"engine": "c11_vectors", "message": line[4:600], "history": [line[4:300]]})
        elif line.startswith("TOTAL "):
            ncfg, ncmp = int(line.split()[1]), int(line.split()[2])
    if r.returncode != 0 or ncfg == 0:
        sys.stderr.write("c11_vectors failed rc=%d: %s\n" % (r.returncode, r.stdout[-1000:])); raise SystemExit(2)
    # every operation sequence (nothing merged) of a parameter-store alphabet on two representative solutions
    for s in ("euler_1d", "radiation_integrated_intensity"):
        if s in sols:
            ress = run_space(exe, "c11s", tier, os.path.join(b.dir, "c11s.out"), solution=s, extra=["--seqdepth", "5" if tier == "thorough" else "4"])
            add_violations(rep, ress, "C11")
            results.append(ress)
    cover(rep, results, "; one closed space per catalogue solution: set/get on first/middle/last/unknown/empty names x values {1.5, marker, marker's neighbour(, -2.25)}, a long double space per solution with the decimal literal -12345.67L; all operation sequences up to depth 4 (thorough 5) of a parameter-store alphabet on euler_1d and the radiation solution, nothing merged, init_param, purge, sanity, display, set_vec/get_vec with lengths {0,3(,1,30)} on every vector, and set_vec relative to the stored contents (one entry appended, last entry dropped, same contents again)")
    rep.coverage["solutions"] = len(sols)
    rep.coverage["radiation_vector_configurations"] = ncfg; rep.coverage["radiation_closed_form_comparisons"] = ncmp
    rep.coverage["states"] += ncfg; rep.coverage["transitions"] += ncmp; rep.coverage["traces_validated_against_impl"] += ncmp
    rep.assumptions += ["values restricted to the alphabet; names to first/middle/last registered + unknown + empty", "the two self-test fixtures are excluded as the property states"]
    return rep.finish()


def check_c16(tier):
    rep = Report("C16", tier)
    # (i) exit() build: misuse from every state of the registry space -> 'MASA FATAL ERROR' + exit status 1
    b, exe, _ = build_e2()
    res1 = run_space(exe, "c16", tier, os.path.join(b.dir, "c16.out"))
    add_violations(rep, res1, "C16", build="exit")
    # (ii) exception build: the same operations are ordinary transitions; throw int 1, state unchanged, exploration continues through them
    bx, exx, _ = build_e2("exceptions", lib_flags=["-DMASA_EXCEPTIONS"], harness_flags=["-DMASA_EXCEPTIONS"], name="e2x", root=b.root)
    res2 = run_space(exx, "c16", tier, os.path.join(bx.dir, "c16x.out"))
    add_violations(rep, res2, "C16", build="exceptions")
    # (i') / (ii') handles spelled like catalogue names, both builds
    res1n = run_space(exe, "c16n", tier, os.path.join(b.dir, "c16n.out"))
    add_violations(rep, res1n, "C16", build="exit")
    res2n = run_space(exx, "c16n", tier, os.path.join(bx.dir, "c16nx.out"))
    add_violations(rep, res2n, "C16", build="exceptions")
    # (i'') / (ii'') failed calls on handles that own large vectors, both builds
    res1v = run_space(exe, "c16v", tier, os.path.join(b.dir, "c16v.out"))
    add_violations(rep, res1v, "C16", build="exit")
    res2v = run_space(exx, "c16v", tier, os.path.join(bx.dir, "c16vx.out"))
    add_violations(rep, res2v, "C16", build="exceptions")
    res1l = run_space(exe, "c16l", tier, os.path.join(b.dir, "c16l.out"))
    add_violations(rep, res1l, "C16", build="exit")
    res2l = run_space(exx, "c16l", tier, os.path.join(bx.dir, "c16lx.out"))
    add_violations(rep, res2l, "C16", build="exceptions")
    # (ii-s) every operation sequence of a registry-with-misuse alphabet, exception build: histories continue through caught failures
    res2s = run_space(exx, "c16s", tier, os.path.join(bx.dir, "c16sx.out"), extra=["--seqdepth", "5" if tier == "thorough" else "4"])
    add_violations(rep, res2s, "C16", build="exceptions")
    # (i-s) the same alphabet in the exit() build: a fatal operation ends its branch (exit status 1 + message, anything else is a violation),
    # so one level deeper is affordable: every history of up to 4 (thorough 5) non-fatal operations followed by every misuse
    res1s = run_space(exe, "c16s", tier, os.path.join(b.dir, "c16s.out"), extra=["--seqdepth", "6" if tier == "thorough" else "5"])
    add_violations(rep, res1s, "C16", build="exit")
    # (iii) empty history: every solution-dependent API entry before any masa_init
    res3 = run_empty_history(b, exe, rep)
    cover(rep, [res1, res2, res1n, res2n, res1v, res2v, res2s, res1s, res1l, res2l])
    fatal_t = sum(1 for r in (res1, res2, res1n, res2n, res1v, res2v) for t in r["trans"] if t[3])
    rep.coverage["fatal_transitions_checked"] = fatal_t
    rep.coverage["empty_history_calls"] = res3
    rep.coverage["states"] += res3; rep.coverage["transitions"] += res3; rep.coverage["traces_validated_against_impl"] += res3
    rep.assumptions += ["same alphabet as C12 plus select(unknown), init(new handle, bogus name), init(existing handle, misspelt name), select(handle spelled like a solution name of the alphabet) in both registries; space c16l: registered handles of 32..64 characters sharing their first character with the unknown handle selected; space c16s (exception build): all operation sequences up to depth 4 (thorough 5) of an 11-operation registry alphabet with four misuse operations, nothing merged, the history continuing through every caught failure, and in the exit() build all sequences up to depth 5 (thorough 6) in which a misuse operation ends the branch with exit status 1 and the FATAL message; space c16v: two handles owning 600-entry vectors (radiation, cp_normal), failed re-initialisation of either handle and of a new one, select(unknown): vectors of every instance unchanged by the failed call; space c16n: handles {a, euler_1d} that may be spelled like the catalogue name of their own or another solution, select of registered/unregistered/decorated spellings; exit() build observed through wait status and captured stdout, exception build through catch(int)"]
    return rep.finish()


def run_empty_history(b, exe, rep):
    """every solution-dependent public function, in a child that never called masa_init: MASA FATAL ERROR + exit 1"""
    src = os.path.join(VERIF, "src", "e2_empty.cpp")
    gen = os.path.join(b.dir, "gen")
    out = os.path.join(b.dir, "e2_empty")
    b.compile_harness([src], out, flags=["-O1", "-w"], incs=[gen])
    r = subprocess.run([out], stdout=subprocess.PIPE, stderr=subprocess.STDOUT, text=True)
    n = 0
    for line in r.stdout.split("\n"):
        if line.startswith("OK "):
            n += 1
        elif line.startswith("BAD "):
            n += 1
            rep.violation("empty history: " + line[4:], {"engine": "e2", "space": "empty-history", "history": [line[4:].split(":")[0]], "message": line[4:]})
    if r.returncode != 0 or n == 0:
        sys.stderr.write("e2_empty failed:\n" + r.stdout[-2000:]); raise SystemExit(2)
    return n


def check_c17(tier):
    rep = Report("C17", tier)
    b, exe, rows = build_e2()
    res = run_space(exe, "c17", tier, os.path.join(b.dir, "c17.out"))
    add_violations(rep, res, "C17")
    n, g = eval_consistency(rep, res)
    # every sequence (nothing merged) of C and C++ writes/reads of one vector and one scalar: what one interface wrote the other must see,
    # whatever either interface did before
    res17s = run_space(exe, "c17s", tier, os.path.join(b.dir, "c17s.out"), extra=["--seqdepth", "5" if tier == "thorough" else "4"])
    add_violations(rep, res17s, "C17")
    # evaluators: every C evaluator symbol x solutions x 3 tuples, bit-identical to the <double> template
    src = os.path.join(VERIF, "src", "e2_cevals.cpp")
    gen = os.path.join(b.dir, "gen")
    out = os.path.join(b.dir, "e2_cevals")
    b.compile_harness([src], out, flags=["-O1", "-w"], incs=[gen])
    r = subprocess.run([out], stdout=subprocess.PIPE, stderr=subprocess.STDOUT, text=True)
    calls = 0
    for line in r.stdout.split("\n"):
        if line.startswith("BAD "):
            rep.violation("C evaluator " + line[4:], {"engine": "e2", "space": "c-evaluators", "message": line[4:], "history": [line[4:]]})
        elif line.startswith("TOTAL "):
            calls = int(line.split()[1])
    if r.returncode != 0 or calls == 0:
        sys.stderr.write("e2_cevals failed:\n" + r.stdout[-2000:]); raise SystemExit(2)
    cover(rep, [res, res17s], "; C and C++ variants of every operation mixed freely on the double registry")
    rep.coverage["c_evaluator_symbols"] = len(rows); rep.coverage["c_evaluator_calls"] = calls
    rep.coverage["states"] += calls; rep.coverage["transitions"] += 2 * calls; rep.coverage["traces_validated_against_impl"] += calls
    rep.assumptions += ["C symbols enumerated from the tree's cmasa.cpp definitions; each compared with the C++ template the naming rule masa_eval_<n>d_<name> -> masa_eval_<name><double>(n args) designates"]
    return rep.finish()


def replay(prop, path):
    v = json.load(open(path))
    if v.get("engine") != "e2" or "op_indices" not in v:
        from vcommon import replay_by_rerun
        return replay_by_rerun(prop, path, {"C11": check_c11, "C12": check_c12, "C16": check_c16, "C17": check_c17}[prop])
    if v.get("build") == "exceptions":
        b, exe, _ = build_e2("exceptions", lib_flags=["-DMASA_EXCEPTIONS"], harness_flags=["-DMASA_EXCEPTIONS"], name="e2x")
    else:
        b, exe, _ = build_e2()
    cmd = [exe, "--space", v["space"], "--tier", v.get("tier", "quick"), "--out", os.path.join(b.dir, "replay.out"), "--replay", ",".join(str(k) for k in v["op_indices"]) + ","]
    if v.get("solution"):
        cmd += ["--solution", v["solution"]]
    r = subprocess.run(cmd, stdout=subprocess.PIPE, stderr=subprocess.STDOUT, text=True)
    print(r.stdout.strip()[-3000:])
    died = r.returncode not in (0, 1)
    if died:
        print("replay: process terminated with status %d during the history" % r.returncode)
    if r.returncode != 0:
        print("VIOLATION property=%s replay=%s" % (prop, path))
        return 1
    return 0
