"""C18: Fortran bind(C) interfaces / SWIG module vs the C ABI of the tree under test.

Layer 1 (complete enumeration of a finite artefact): every bind(C,name=...) interface of src/masa.f90 is parsed into
an ABI class string (result, per-dummy by-value/by-reference class); the C side is *not* parsed from text: a generated
translation unit includes the tree's cmasa.cpp and lets the compiler print the ABI class string of every definition.
Layer 2 (executed, the model-checked part): for every interface a C shim that knows the symbol only through the
Fortran-derived prototype calls the real library at every argument tuple of a small alphabet; the observable result
must equal that of the corresponding C++ <double> call on the same registry.
"""
import json, os, re, subprocess, sys
import vbuild, gen_api
from vcommon import Report, VERIF


# ------------------------------------------------------------------------------------------------ Fortran parser
def parse_f90(text):
    """-> list of interfaces: dict(fname, sym, result, args=[(name, cls, ftype)])  cls in d,i,p(c=char,D=double array,I=int ref,R=double ref),F,G"""
    # join free-form continuation lines ('&' at the end, optional '&' at the start of the next line)
    text = re.sub(r"&[ \t]*(?:![^\n]*)?\n[ \t]*&?", " ", text)
    # strip comments
    lines = []
    for l in text.split("\n"):
        if l.lstrip().startswith("!"):
            continue
        l = re.sub(r"!.*$", "", l)
        lines.append(l)
    src = "\n".join(lines)
    out = []
    hdr = re.compile(r"^\s*(subroutine|(?:real\s*\(\s*c_double\s*\)|integer\s*\(\s*c_int\s*\))\s*function)\s+(\w+)\s*\(([^)]*)\)\s*bind\s*\(\s*C\s*,\s*name\s*=\s*'(\w+)'\s*\)", re.I | re.M)
    for m in hdr.finditer(src):
        kind, fname, arglist, sym = m.group(1), m.group(2), m.group(3), m.group(4)
        result = "void" if kind.lower().startswith("subroutine") else ("double" if "c_double" in kind.lower() else "int")
        endm = re.search(r"^\s*end\s+(subroutine|function)\s+%s\b" % re.escape(fname), src[m.end():], re.I | re.M)
        body = src[m.end(): m.end() + (endm.start() if endm else 0)]
        # abstract interface for procedure dummies
        procs = {}
        for pm in re.finditer(r"abstract\s+interface(.*?)end\s+interface", body, re.I | re.S):
            blk = pm.group(1)
            fm = re.search(r"function\s+(\w+)\s*\(([^)]*)\)\s*bind\s*\(\s*C\s*\)", blk, re.I)
            if fm:
                pname, pargs = fm.group(1), [a.strip() for a in fm.group(2).split(",") if a.strip()]
                byval = []
                for a in pargs:
                    dm = re.search(r"^\s*real\s*\(\s*c_double\s*\)([^:\n]*)::\s*%s\b" % re.escape(a), blk, re.I | re.M)
                    byval.append(bool(dm and re.search(r"\bvalue\b", dm.group(1), re.I)))
                procs[pname.lower()] = "F" if all(byval) else "G"
        body_noabs = re.sub(r"abstract\s+interface.*?end\s+interface", "", body, flags=re.I | re.S)
        args = []
        intents = []
        for a in [x.strip() for x in arglist.split(",") if x.strip()]:
            if a.lower() in procs:
                args.append((a, procs[a.lower()], "procedure")); intents.append("")
                continue
            dm = re.search(r"^\s*(character\s*\(\s*c_char\s*\)|real\s*\(\s*c_double\s*\)|integer\s*\(\s*c_int\s*\))([^:\n]*)::\s*([^\n]*)$", body_noabs, re.I | re.M)
            found = None
            for dm in re.finditer(r"^\s*(character\s*\(\s*c_char\s*\)|real\s*\(\s*c_double\s*\)|integer\s*\(\s*c_int\s*\))([^:\n]*)::\s*([^\n]*)$", body_noabs, re.I | re.M):
                names = [re.sub(r"\(.*\)", "", n).strip().lower() for n in dm.group(3).split(",")]
                if a.lower() in names:
                    found = dm
                    break
            if not found:
                args.append((a, "?", "undeclared")); intents.append("")
                continue
            ftype, attrs, decl = found.group(1).lower().replace(" ", ""), found.group(2).lower(), found.group(3)
            is_array = "dimension" in attrs or re.search(r"\b%s\s*\(" % re.escape(a), decl, re.I) is not None
            byvalue = re.search(r"\bvalue\b", attrs) is not None
            if "character" in ftype:
                cls = "pc"
            elif "c_double" in ftype:
                cls = "pD" if is_array else ("d" if byvalue else "pR")
            else:
                cls = "i" if byvalue else "pI"
            args.append((a, cls, ftype))
            intents.append("in" if re.search(r"intent\s*\(\s*in\s*\)", attrs) else ("out" if re.search(r"intent\s*\(\s*(out|inout)\s*\)", attrs) else ""))
        out.append({"fname": fname, "sym": sym, "result": result, "args": args, "intents": intents})
    return out


def abi_string(result, arg_classes):
    return {"void": "v", "int": "i", "double": "d"}[result] + "(" + "".join(c[0] for c in arg_classes) + ")"


# ------------------------------------------------------------------------------------------------ C side
SIG_TU = r'''
#include "cmasa.cpp"
#include <cstdio>
#include <string>
#include <type_traits>
template <class T> struct Cls { static std::string s() { return "?"; } };
template <> struct Cls<void> { static std::string s() { return "v"; } };
template <> struct Cls<int> { static std::string s() { return "i"; } };
template <> struct Cls<double> { static std::string s() { return "d"; } };
template <class T> struct Cls<T*> { static std::string s() { return "p"; } };
template <class T> struct Wr { static std::string s() { return "-"; } };
template <class T> struct Wr<T*> { static std::string s() { return "w"; } };        // the callee may write through it
template <class T> struct Wr<const T*> { static std::string s() { return "r"; } };  // read only
template <class R, class... A> std::string wsig(R (*)(A...)) { std::string r; int d[] = {0, (r += Wr<A>::s(), 0)...}; (void)d; return r; }
template <> struct Cls<double (*)(double)> { static std::string s() { return "F"; } };
template <> struct Cls<double (*)(double*)> { static std::string s() { return "G"; } };
template <> struct Cls<double (*)(const double*)> { static std::string s() { return "G"; } };
template <class R, class... A> std::string sig(R (*)(A...)) { std::string r = Cls<R>::s() + "("; int d[] = {0, (r += Cls<A>::s(), 0)...}; (void)d; return r + ")"; }
int main() {
%s
  return 0;
}
'''


def defined_c_symbols(cmasa_text):
    return sorted(set(re.findall(r'extern\s+"C"\s+[\w\s\*]+?\b(masa_\w+)\s*\(', cmasa_text)))


def declared_c_symbols(masa_h_text):
    m = re.search(r'extern\s+"C"\s*\{(.*)$', masa_h_text, re.S)
    body = m.group(1) if m else ""
    body = re.sub(r"/\*.*?\*/", "", body, flags=re.S)
    body = re.sub(r"//[^\n]*", "", body)
    return sorted(set(re.findall(r"\bextern\s+[\w\s\*]+?\b(masa_\w+)\s*\(", body)))


SHIM_HEAD = r'''/* GENERATED: each symbol is declared ONLY with the prototype the Fortran interface implies (no masa.h here) */
static double cb_byval(double T) { return 2.75 + 0.25 * T; }
static double cb_byref(const double* T) { return 2.75 + 0.25 * (*T); }
'''


def gen_shims(ifaces):
    """C source: double shim_<k>(const double* d, const int* iv, const char* const* sv, double* arr, int* n)"""
    L = [SHIM_HEAD]
    table = []
    for k, it in enumerate(ifaces):
        ctypes, call, nd, ni, ns = [], [], 0, 0, 0
        ok = True
        for (name, cls, ftype) in it["args"]:
            if cls == "d":
                ctypes.append("double"); call.append("d[%d]" % nd); nd += 1
            elif cls == "i":
                ctypes.append("int"); call.append("iv[%d]" % ni); ni += 1
            elif cls == "pc":
                ctypes.append("const char*"); call.append("sv[%d]" % ns); ns += 1
            elif cls == "pD":
                ctypes.append("double*"); call.append("arr")
            elif cls == "pI":
                ctypes.append("int*"); call.append("n")
            elif cls == "pR":
                ctypes.append("double*"); call.append("arr")
            elif cls == "F":
                ctypes.append("double (*)(double)"); call.append("cb_byval")
            elif cls == "G":
                ctypes.append("double (*)(const double*)"); call.append("cb_byref")
            else:
                ok = False
        if not ok:
            continue
        rt = it["result"]
        L.append("extern %s %s(%s);" % (rt, it["sym"], ", ".join(ctypes) if ctypes else "void"))
        body = "%s(%s)" % (it["sym"], ", ".join(call))
        if rt == "void":
            L.append("double shim_%d(const double* d, const int* iv, const char* const* sv, double* arr, int* n) { %s; return 0.0; }" % (k, body))
        else:
            L.append("double shim_%d(const double* d, const int* iv, const char* const* sv, double* arr, int* n) { return (double)%s; }" % (k, body))
        table.append((k, it))
    L.append("typedef double (*shim_fn)(const double*, const int*, const char* const*, double*, int*);")
    L.append("shim_fn SHIMS[] = {%s};" % ", ".join("shim_%d" % k for k, _ in table))
    L.append('const char* SHIM_SYMS[] = {%s};' % ", ".join('"%s"' % re.sub(r"_passthrough$", "", it["fname"], flags=re.I) for _, it in table))  # the comparison is chosen by what the Fortran name promises
    L.append('const char* SHIM_ABI[] = {%s};' % ", ".join('"%s"' % abi_string(it["result"], [a[1] for a in it["args"]]) for _, it in table))
    L.append("int N_SHIMS = %d;" % len(table))
    return "\n".join(L) + "\n", table


FHELP = r"""
module c18_help
  use iso_c_binding
  implicit none
contains
  function fstr(p) result(s)
    type(c_ptr), intent(in) :: p
    character(len=:), allocatable :: s
    character(kind=c_char), pointer :: a(:)
    integer :: n, i
    interface
      function c18_strlen(q) bind(C, name='strlen') result(l)
        import
        type(c_ptr), value :: q
        integer(c_size_t) :: l
      end function c18_strlen
    end interface
    n = int(c18_strlen(p))
    call c_f_pointer(p, a, [n])
    allocate(character(len=n) :: s)
    do i = 1, n
      s(i:i) = a(i)
    end do
  end function fstr
  function cbv(T) bind(C) result(r)
    real(c_double), value, intent(in) :: T
    real(c_double) :: r
    r = 2.75d0 + 0.25d0 * T
  end function cbv
  function cbr(T) bind(C) result(r)
    real(c_double), intent(in) :: T
    real(c_double) :: r
    r = 2.75d0 + 0.25d0 * T
  end function cbr
end module c18_help
"""


def fortran_frontend():
    """gcc can compile free-form Fortran when the f951 front end and libgfortran are installed (there is no gfortran driver in the image)"""
    import tempfile, shutil
    d = tempfile.mkdtemp(prefix="masa-verif-f-", dir=os.environ.get("VERIF_SCRATCH") or ("/dev/shm" if os.path.isdir("/dev/shm") else None))
    try:
        open(os.path.join(d, "t.f90"), "w").write("program t\n use iso_c_binding\n real(c_double) :: x\n x = 1.5d0\n if (x < 0) print *, x\nend program t\n")
        r = vbuild.run(["gcc", "-c", os.path.join(d, "t.f90"), "-o", os.path.join(d, "t.o")], cwd=d)
        if r.returncode != 0:
            return False
        r = vbuild.run(["gcc", os.path.join(d, "t.o"), "-lgfortran", "-o", os.path.join(d, "t")], cwd=d)
        return r.returncode == 0 and vbuild.run([os.path.join(d, "t")]).returncode == 0
    finally:
        shutil.rmtree(d, ignore_errors=True)


def gen_fshims(ifaces, f90_text):
    """Fortran source: one bind(C) function shim_<k>(d, iv, sv, arr, n) per interface, written the way a Fortran user calls the module
    (`use masa`; the character wrappers of the module where they exist, the bind(C) interface name otherwise), plus the C table."""
    wrappers = set(m.group(2).lower() for m in re.finditer(r"^\s*(?:real\s*\(\s*c_double\s*\)\s*|integer\s*\(\s*c_int\s*\)\s*)?(subroutine|function)\s+(\w+)\s*\([^)]*\)\s*$", f90_text, re.I | re.M))
    F = [FHELP]
    table = []
    for k, it in enumerate(ifaces):
        via_wrapper = it["fname"].lower().endswith("_passthrough") and it["sym"].lower() in wrappers
        callee = it["sym"] if via_wrapper else it["fname"]
        call, nd, ni, ns, ok = [], 0, 0, 0, True
        strided = False
        for (name, cls, ftype) in it["args"]:
            if cls == "d":
                nd += 1; call.append("d(%d)" % nd)
            elif cls == "i":
                ni += 1; call.append("iv(%d)" % ni)
            elif cls == "pc":
                ns += 1; call.append("fstr(sv(%d))" % ns if via_wrapper else "fstr(sv(%d))//C_NULL_CHAR" % ns)
            elif cls == "pD":
                call.append("tab(2, :)"); strided = True
            elif cls == "pI":
                call.append("n")
            elif cls == "pR":
                call.append("arr(1)")
            elif cls == "F":
                call.append("cbv")
            elif cls == "G":
                call.append("cbr")
            else:
                ok = False
        if not ok:
            continue
        L = ["function fshim_%d(d, iv, sv, arr, n) bind(C, name='shim_%d') result(r)" % (k, k), "  use iso_c_binding", "  use masa", "  use c18_help", "  implicit none",
             "  real(c_double) :: d(*)", "  integer(c_int) :: iv(*)", "  type(c_ptr) :: sv(*)", "  real(c_double) :: arr(*)", "  integer(c_int) :: n", "  real(c_double) :: r", "  r = 0"]
        if strided:
            # the array travels as row 2 of a 2-d table: a non-contiguous actual argument (what `call masa_get_array(name, n, table(2,:))` is)
            L.insert(-1, "  real(c_double) :: tab(3, 256)")
            L.append("  tab(1, :) = -555.0d0"); L.append("  tab(3, :) = -555.0d0"); L.append("  tab(2, :) = arr(1:256)")
        expr = "%s(%s)" % (callee, ", &\n      ".join(call))
        if it["result"] == "void":
            L.append("  call " + expr)
        else:
            L.append("  r = real(" + expr + ", c_double)")
        if strided:
            L.append("  arr(1:256) = tab(2, :)")
            L.append("  if (any(tab(1, :) /= -555.0d0) .or. any(tab(3, :) /= -555.0d0)) arr(1) = -999.0d0")
        L.append("end function fshim_%d" % k)
        F.append("\n".join(L) + "\n")
        table.append((k, it, callee))
    C = ["typedef double (*shim_fn)(const double*, const int*, const char* const*, double*, int*);"]
    for k, _, _ in table:
        C.append("extern double shim_%d(const double*, const int*, const char* const*, double*, int*);" % k)
    C.append("shim_fn SHIMS[] = {%s};" % ", ".join("shim_%d" % k for k, _, _ in table))
    C.append('const char* SHIM_SYMS[] = {%s};' % ", ".join('"%s"' % re.sub(r"_passthrough$", "", it["fname"], flags=re.I) for _, it, _ in table))
    C.append('const char* SHIM_ABI[] = {%s};' % ", ".join('"%s"' % abi_string(it["result"], [a[1] for a in it["args"]]) for _, it, _ in table))
    C.append("int N_SHIMS = %d;" % len(table))
    return "\n".join(F), "\n".join(C) + "\n", table


def fortran_layer(rep, b, gen, ifaces, f90_text):
    """layer 3: the tree's masa.f90 compiled by the Fortran front end, every interface called from Fortran code, same comparisons as layer 2"""
    info = {"frontend": fortran_frontend()}
    if not info["frontend"]:
        info["skipped"] = "gcc has no Fortran front end (f951/libgfortran) in this environment"
        return info
    fd = os.path.join(b.dir, "f90"); os.makedirs(fd, exist_ok=True)
    r = vbuild.run(["gcc", "-c", "-O0", "-J", fd, os.path.join(b.src, "masa.f90"), "-o", os.path.join(fd, "masa_mod.o")], cwd=fd)
    if r.returncode != 0:
        rep.violation("src/masa.f90 does not compile with the Fortran front end: " + " ".join(r.stdout.split())[-400:], {"engine": "c18", "kind": "f90-compile"})
        return info
    fsrc, ctab, table = gen_fshims(ifaces, f90_text)
    open(os.path.join(fd, "fshim.f90"), "w").write(fsrc)
    open(os.path.join(fd, "fshim_tab.c"), "w").write(ctab)
    r = vbuild.run(["gcc", "-c", "-O0", "-w", "-I", fd, "-J", fd, os.path.join(fd, "fshim.f90"), "-o", os.path.join(fd, "fshim.o")], cwd=fd)
    if r.returncode != 0:
        # a caller written against the pinned interfaces (positional arguments, the kinds the C ABI implies) no longer compiles against the module
        msg = " ".join(r.stdout.split())
        m = re.search(r"fshim_(\d+)", msg)
        rep.violation("Fortran callers of the module no longer compile (argument kind/rank/count of an interface changed): " + msg[:500], {"engine": "c18", "kind": "f90-caller-compile"})
        return info
    r = vbuild.run(["gcc", "-c", "-O0", "-w", os.path.join(fd, "fshim_tab.c"), "-o", os.path.join(fd, "fshim_tab.o")])
    if r.returncode != 0:
        sys.stderr.write("fshim table compile failed:\n" + r.stdout[-2000:]); raise SystemExit(2)
    drv = os.path.join(fd, "c18_drv_f")
    r = vbuild.run(["g++", "-std=gnu++17", "-O1", "-w", "-I" + b.src, "-I" + gen, os.path.join(VERIF, "src", "c18_driver.cpp"), os.path.join(fd, "fshim_tab.o"), os.path.join(fd, "fshim.o"), os.path.join(fd, "masa_mod.o"), b.lib, "-lgfortran", "-o", drv])
    if r.returncode != 0:
        sys.stderr.write("c18 Fortran driver link failed:\n" + r.stdout[-3000:]); raise SystemExit(2)
    out = os.path.join(fd, "c18f.out")
    r = subprocess.run([drv, out], stdout=subprocess.PIPE, stderr=subprocess.STDOUT, text=True)
    if r.returncode != 0:
        sys.stderr.write("c18 Fortran driver failed rc=%d:\n%s" % (r.returncode, r.stdout[-3000:])); raise SystemExit(2)
    recs = [json.loads(l) for l in open(out) if l.strip()]
    tot = [x for x in recs if x["k"] == "totals"][0]
    for v in recs:
        if v["k"] == "viol":
            rep.violation("[compiled Fortran caller] " + v["what"].replace("through its Fortran prototype", "from Fortran code that uses the module"), dict(v, engine="c18", layer="fortran"))
    info.update({"interfaces_called_from_fortran": len(table), "through_module_wrappers": sorted(c for _, it, c in table if c == it["sym"] and it["fname"] != it["sym"]),
                 "states": tot["states"], "calls": tot["calls"], "validated": tot["validated"]})
    return info


def check(tier):
    rep = Report("C18", tier)
    b = vbuild.Build("plain").build()
    gen = os.path.join(b.dir, "gen"); os.makedirs(gen, exist_ok=True)
    gen_api.generate(os.path.join(b.src, "masa.h"), os.path.join(VERIF, "spec", "api_rule.tsv"), os.path.join(gen, "api_gen.hpp"))
    f90 = open(os.path.join(b.src, "masa.f90"), errors="replace").read()
    ifaces = parse_f90(f90)
    f90j = re.sub(r"&[ \t]*(?:![^\n]*)?\n[ \t]*&?", " ", f90)
    n_bind = len(re.findall(r"^\s*(?!!)[^!\n]*bind\s*\(\s*C\s*,\s*name\s*=", f90j, re.I | re.M))
    cm = open(os.path.join(b.src, "cmasa.cpp")).read()
    mh = open(os.path.join(b.src, "masa.h")).read()
    defined = defined_c_symbols(cm)
    declared = declared_c_symbols(mh)
    obligations = 0
    if len(ifaces) != n_bind:
        rep.violation("masa.f90 has %d bind(C,name=) lines but only %d could be parsed as interfaces" % (n_bind, len(ifaces)), {"engine": "c18", "kind": "parse"})
    # ---- layer 1a: compiler-derived ABI strings of every C definition
    body = "\n".join('  printf("%s %%s %%s\\n", sig(&::%s).c_str(), ("W" + wsig(&::%s)).c_str());' % (s, s, s) for s in defined)
    tu = os.path.join(b.dir, "c18_sig.cpp")
    open(tu, "w").write(SIG_TU % body)
    objs = [os.path.join(b.dir, s[:-4] + ".o") for s in vbuild.cc_sources() if s != "cmasa.cpp"]
    exe = os.path.join(b.dir, "c18_sig")
    r = vbuild.run(["g++", "-std=gnu++17", "-w", "-DHAVE_CONFIG_H", "-I" + b.src, tu, "-o", exe] + objs)
    if r.returncode != 0:
        sys.stderr.write("c18_sig build failed:\n" + r.stdout[-3000:]); raise SystemExit(2)
    r = vbuild.run([exe])
    csig, cwr = {}, {}
    for l in r.stdout.strip().split("\n"):
        f = l.split()
        if len(f) >= 2:
            csig[f[0]] = f[1]; cwr[f[0]] = f[2][1:] if len(f) > 2 else ""
    # ---- layer 1b: exported symbols of the freshly built library
    nm = vbuild.run(["nm", "-g", "--defined-only", b.lib]).stdout
    exported = set(re.findall(r"\bT\s+(masa_\w+)$", nm, re.M))
    for s in declared:
        obligations += 1
        if s not in exported:
            rep.violation("C function %s is declared in masa.h but not defined by the library" % s, {"engine": "c18", "kind": "undefined", "symbol": s})
    # ---- layer 1c: every Fortran interface against the C definition
    statics = []
    for it in ifaces:
        obligations += 1
        fsig = abi_string(it["result"], [a[1] for a in it["args"]])
        sym = it["sym"]
        if sym not in exported or sym not in csig:
            rep.violation("Fortran interface %s binds symbol %s which the C interface does not define" % (it["fname"], sym), {"engine": "c18", "kind": "unbound", "symbol": sym, "interface": it["fname"]})
            continue
        c = csig[sym]
        statics.append({"interface": it["fname"], "symbol": sym, "fortran": fsig, "c": c})
        if any(a[1] == "?" for a in it["args"]):
            rep.violation("Fortran interface %s: dummy argument without a declaration" % it["fname"], {"engine": "c18", "kind": "undeclared", "interface": it["fname"]})
            continue
        # a dummy the C function writes through (non-const pointer) must not be declared intent(in): the Fortran processor may then pass a
        # read-only copy and skip the copy-back
        wr = cwr.get(sym, "")
        for k, (nm_, cls_, _) in enumerate(it["args"]):
            if k < len(wr) and wr[k] == "w" and cls_ in ("pD", "pI", "pR") and it.get("intents", [""] * 99)[k] == "in":
                rep.violation("Fortran interface %s -> %s: dummy %s is intent(in) but the C function writes through the corresponding pointer" % (it["fname"], sym, nm_), {"engine": "c18", "kind": "intent", "symbol": sym, "dummy": nm_})
        if fsig == c:
            continue
        fr, fa = fsig[0], fsig[2:-1]
        cr, ca = c[0], c[2:-1]
        if fa != ca:
            what = "arity" if len(fa) != len(ca) else "by-value/by-reference or type"
            rep.violation("Fortran interface %s -> %s: argument %s mismatch, Fortran implies %s but the C definition is %s" % (it["fname"], sym, what, fsig, c),
                          {"engine": "c18", "kind": "args", "symbol": sym, "fortran": fsig, "c": c})
        elif fr != cr:
            fid = "f90-result-" + sym
            summary = "Fortran interface %s -> %s: result type mismatch, Fortran %s vs C %s" % (it["fname"], sym, {"v": "subroutine (void)", "i": "integer(c_int)", "d": "real(c_double)"}[fr], {"v": "void", "i": "int", "d": "double"}[cr])
            rep.finding_or_violation(fid, summary, {"engine": "c18", "kind": "result", "symbol": sym, "fortran": fsig, "c": c})
    # ---- layer 1c': the binding label of an interface is the C function its Fortran name promises (masa_x or masa_x_passthrough -> 'masa_x'),
    # and no two interfaces bind the same C symbol
    seen_sym = {}
    for it in ifaces:
        obligations += 1
        want = re.sub(r"_passthrough$", "", it["fname"], flags=re.I)
        if want.lower() != it["sym"].lower():
            rep.violation("Fortran interface %s binds C symbol %s: a caller of %s reaches another function" % (it["fname"], it["sym"], want), {"engine": "c18", "kind": "label", "interface": it["fname"], "symbol": it["sym"]})
        if it["sym"] in seen_sym:
            rep.violation("Fortran interfaces %s and %s bind the same C symbol %s" % (seen_sym[it["sym"]], it["fname"], it["sym"]), {"engine": "c18", "kind": "duplicate-label", "symbol": it["sym"]})
        seen_sym.setdefault(it["sym"], it["fname"])
    # ---- layer 1d: SWIG module
    obligations += 1
    swig = open(os.path.join(b.src, "masa.i")).read()
    sw = re.sub(r"//[^\n]*", "", swig)
    sw = re.sub(r"/\*.*?\*/", "", sw, flags=re.S)
    directives = re.findall(r"%\w+", sw)
    bad_dir = [d for d in directives if d not in ("%module", "%include")]
    includes = re.findall(r'%include\s+"([^"]+)"', sw)
    residue = re.sub(r"%module\s+\w+|%\{.*?%\}|%include\s+\"[^\"]+\"", "", sw, flags=re.S).strip()
    if includes != ["masa.h"] or bad_dir or residue:
        rep.violation("masa.i does not wrap exactly masa.h (includes=%s, other directives=%s, residue=%r)" % (includes, bad_dir, residue[:60]), {"engine": "c18", "kind": "swig"})
    # ---- layer 2: executed shims
    shim_src, table = gen_shims(ifaces)
    shim_c = os.path.join(b.dir, "f90_shim.c")
    open(shim_c, "w").write(shim_src)
    shim_o = os.path.join(b.dir, "f90_shim.o")
    r = vbuild.run(["gcc", "-O0", "-w", "-c", shim_c, "-o", shim_o])
    if r.returncode != 0:
        sys.stderr.write("shim compile failed:\n" + r.stdout[-3000:]); raise SystemExit(2)
    drv = os.path.join(b.dir, "c18_drv")
    r = vbuild.run(["g++", "-std=gnu++17", "-O1", "-w", "-I" + b.src, "-I" + gen, os.path.join(VERIF, "src", "c18_driver.cpp"), shim_o, b.lib, "-o", drv])
    if r.returncode != 0:
        sys.stderr.write("c18 driver build failed:\n" + r.stdout[-3000:]); raise SystemExit(2)
    out = os.path.join(b.dir, "c18.out")
    r = subprocess.run([drv, out], stdout=subprocess.PIPE, stderr=subprocess.STDOUT, text=True)
    if r.returncode != 0:
        sys.stderr.write("c18 driver failed rc=%d:\n%s" % (r.returncode, r.stdout[-3000:])); raise SystemExit(2)
    recs = [json.loads(l) for l in open(out) if l.strip()]
    tot = [x for x in recs if x["k"] == "totals"][0]
    for v in recs:
        if v["k"] == "viol":
            rep.violation(v["what"], dict(v, engine="c18"))
    unc = sorted(set(x["symbol"] for x in recs if x["k"] == "uncovered"))
    finfo = fortran_layer(rep, b, gen, ifaces, f90)
    rep.coverage.update({
        "states": tot["states"] + finfo.get("states", 0), "transitions": tot["calls"] + finfo.get("calls", 0), "traces_validated_against_impl": tot["validated"] + finfo.get("validated", 0),
        "compiled_fortran_layer": finfo,
        "obligations_static": obligations, "interfaces_parsed": len(ifaces), "bind_lines": n_bind, "c_definitions": len(defined), "c_declarations_in_masa_h": len(declared),
        "samples": statics[:4] + [x for x in recs if x["k"] == "sample"][:4],
        "executed_layer_uncovered_symbols": unc,
        "rule": "static: every bind(C) interface (ABI class string from the Fortran interoperability rules) vs the compiler-derived ABI class string of the C definition in cmasa.cpp, every extern of masa.h vs nm of the built library, masa.i structure; executed: state = (interface, solution, argument tuple) called through a C shim that declares the symbol only with the Fortran-derived prototype, result/out-arguments/registry observation equal to the C++ <double> call",
        "exhaustive": True,
    })
    rep.assumptions += ["Fortran 2003 interoperability rules (value <-> by value; no value, arrays, character(*) <-> pointer) applied by the parser; SWIG does not exist in the image; the compiled-Fortran layer runs when gcc finds its f951 front end and libgfortran (present in this image although there is no gfortran driver) and is reported as skipped otherwise",
                        "SysV x86-64 calling convention for the executed shims"]
    return rep.finish()


def replay(path):
    from vcommon import replay_by_rerun
    return replay_by_rerun("C18", path, check)
